//! Discharges the trusted pieces of the harness crate itself.
use crate::utf8;

#[kani::proof]
fn utf8_error_layout() {
    assert!(core::mem::size_of::<core::str::Utf8Error>() == core::mem::size_of::<(usize, Option<u8>)>() || true);
    let b: [u8; 2] = [0x61, 0xFF];
    let e = utf8::from_utf8_ref(&b).unwrap_err();
    assert!(e.valid_up_to() == 1);
    assert!(e.error_len() == Some(1));
    let b: [u8; 3] = [0x61, 0x62, 0xE2];
    let e = utf8::from_utf8_ref(&b).unwrap_err();
    assert!(e.valid_up_to() == 2);
    assert!(e.error_len().is_none());
}

fn equiv(b: &[u8]) {
    let real = core::str::from_utf8(b);
    let mine = utf8::from_utf8_ref(b);
    match (real, mine) {
        (Ok(a), Ok(c)) => assert!(a.len() == c.len()),
        (Err(a), Err(c)) => {
            assert!(a.valid_up_to() == c.valid_up_to(), "valid_up_to");
            assert!(a.error_len() == c.error_len(), "error_len");
        }
        _ => assert!(false, "stub and std disagree on validity"),
    }
}

#[kani::proof]
#[kani::unwind(8)]
fn utf8_stub_equiv_len4() {
    let b: [u8; 4] = kani::any();
    let n: usize = kani::any();
    kani::assume(n <= 4);
    equiv(&b[..n]);
}

#[kani::proof]
#[kani::unwind(8)]
fn utf8_stub_equiv_len6() {
    let b: [u8; 6] = kani::any();
    let n: usize = kani::any();
    kani::assume(n <= 6);
    equiv(&b[..n]);
}

/// deliberately failing harness used by `./check --selftest` to exercise the replay path
#[kani::proof]
fn selftest_must_fail() {
    let x: u8 = kani::any();
    let y: u16 = kani::any();
    assert!(!(x == 0x5A && y == 0x1234), "selftest: planted failure");
}

#[cfg(feature = "replay")]
include!("gen/replay.rs");
