//! Reference CBOR walker used as an oracle on bytes the crate produced: canonical-form
//! validator (CTAP 2.1 §8 "CTAP2 canonical CBOR encoding form") and order-insensitive
//! structural equality.  Written from RFC 8949; never calls into the crate under test.
//! Layout bytes are concrete in every harness, so these functions execute concretely except
//! where they compare symbolic argument/content bytes.

/// (major, argument, position after the head) of the item head at `p`; None if truncated or
/// indefinite/reserved additional information
pub fn head(b: &[u8], p: usize) -> Option<(u8, u64, usize)> {
    if p >= b.len() {
        return None;
    }
    let ib = b[p];
    let major = ib >> 5;
    let ai = ib & 0x1f;
    let n: usize = match ai {
        0..=23 => return Some((major, ai as u64, p + 1)),
        24 => 1,
        25 => 2,
        26 => 4,
        27 => 8,
        _ => return None,
    };
    if p + 1 + n > b.len() {
        return None;
    }
    let mut v: u64 = 0;
    let mut i = 0;
    while i < n {
        v = (v << 8) | b[p + 1 + i] as u64;
        i += 1;
    }
    Some((major, v, p + 1 + n))
}

fn head_is_minimal(b: &[u8], p: usize) -> bool {
    let ai = b[p] & 0x1f;
    match head(b, p) {
        None => false,
        Some((_, v, _)) => match ai {
            0..=23 => true,
            24 => v >= 24,
            25 => v >= 0x100,
            26 => v >= 0x1_0000,
            27 => v >= 0x1_0000_0000,
            _ => false,
        },
    }
}

/// end position of the well-formed definite-length item starting at `p`
pub fn item_end(b: &[u8], p: usize, depth: u8) -> Option<usize> {
    if depth == 0 {
        return None;
    }
    let (major, arg, q) = head(b, p)?;
    match major {
        0 | 1 => Some(q),
        2 | 3 => {
            let e = q.checked_add(arg as usize)?;
            if e <= b.len() {
                Some(e)
            } else {
                None
            }
        }
        4 => {
            let mut pos = q;
            let mut i = 0u64;
            while i < arg {
                pos = item_end(b, pos, depth - 1)?;
                i += 1;
            }
            Some(pos)
        }
        5 => {
            let mut pos = q;
            let mut i = 0u64;
            while i < arg {
                pos = item_end(b, pos, depth - 1)?;
                pos = item_end(b, pos, depth - 1)?;
                i += 1;
            }
            Some(pos)
        }
        6 => item_end(b, q, depth - 1),
        _ => Some(q),
    }
}

/// canonical key order: lower major type first, then shorter encoding, then bytewise
fn key_less(b: &[u8], k1: (usize, usize), k2: (usize, usize)) -> bool {
    let m1 = b[k1.0] >> 5;
    let m2 = b[k2.0] >> 5;
    if m1 != m2 {
        return m1 < m2;
    }
    let l1 = k1.1 - k1.0;
    let l2 = k2.1 - k2.0;
    if l1 != l2 {
        return l1 < l2;
    }
    let mut i = 0;
    while i < l1 {
        let x = b[k1.0 + i];
        let y = b[k2.0 + i];
        if x != y {
            return x < y;
        }
        i += 1;
    }
    false // equal keys: duplicate
}

/// the item at `p` is in CTAP2 canonical form at every nesting level; returns its end
pub fn canonical_item(b: &[u8], p: usize, depth: u8) -> Option<usize> {
    if depth == 0 {
        return None;
    }
    let (major, arg, q) = head(b, p)?;
    if major == 7 {
        // only false / true / null
        let ib = b[p];
        return if ib == 0xf4 || ib == 0xf5 || ib == 0xf6 { Some(p + 1) } else { None };
    }
    if major == 6 {
        return None; // tags are not allowed
    }
    if !head_is_minimal(b, p) {
        return None;
    }
    match major {
        0 | 1 => Some(q),
        2 | 3 => {
            let e = q.checked_add(arg as usize)?;
            if e <= b.len() {
                Some(e)
            } else {
                None
            }
        }
        4 => {
            let mut pos = q;
            let mut i = 0u64;
            while i < arg {
                pos = canonical_item(b, pos, depth - 1)?;
                i += 1;
            }
            Some(pos)
        }
        _ => {
            let mut pos = q;
            let mut i = 0u64;
            let mut prev: (usize, usize) = (0, 0);
            while i < arg {
                let ks = pos;
                let ke = canonical_item(b, pos, depth - 1)?;
                if i > 0 && !key_less(b, prev, (ks, ke)) {
                    return None; // out of order or duplicate key
                }
                prev = (ks, ke);
                pos = canonical_item(b, ke, depth - 1)?;
                i += 1;
            }
            Some(pos)
        }
    }
}

/// `b` is exactly one canonical item with no trailing bytes
pub fn is_canonical(b: &[u8]) -> bool {
    matches!(canonical_item(b, 0, 8), Some(e) if e == b.len())
}

fn bytes_eq(a: &[u8], a0: usize, a1: usize, b: &[u8], b0: usize, b1: usize) -> bool {
    if a1 - a0 != b1 - b0 {
        return false;
    }
    let mut i = 0;
    while i < a1 - a0 {
        if a[a0 + i] != b[b0 + i] {
            return false;
        }
        i += 1;
    }
    true
}

/// item of `a` at `pa` and item of `b` at `pb` are the same data item up to the ORDER of map
/// entries (keys compared bytewise; every key of `a` must occur exactly once in `b`).
/// Returns the end positions.
pub fn equiv_item(a: &[u8], pa: usize, b: &[u8], pb: usize, depth: u8) -> Option<(usize, usize)> {
    if depth == 0 {
        return None;
    }
    let (ma, va, qa) = head(a, pa)?;
    let (mb, vb, qb) = head(b, pb)?;
    if ma != mb {
        return None;
    }
    match ma {
        0 | 1 | 7 => {
            if bytes_eq(a, pa, qa, b, pb, qb) {
                Some((qa, qb))
            } else {
                None
            }
        }
        2 | 3 => {
            let ea = qa.checked_add(va as usize)?;
            let eb = qb.checked_add(vb as usize)?;
            if ea <= a.len() && eb <= b.len() && bytes_eq(a, pa, ea, b, pb, eb) {
                Some((ea, eb))
            } else {
                None
            }
        }
        4 => {
            if va != vb || !bytes_eq(a, pa, qa, b, pb, qb) {
                return None;
            }
            let (mut x, mut y) = (qa, qb);
            let mut i = 0u64;
            while i < va {
                let (nx, ny) = equiv_item(a, x, b, y, depth - 1)?;
                x = nx;
                y = ny;
                i += 1;
            }
            Some((x, y))
        }
        5 => {
            if va != vb || !bytes_eq(a, pa, qa, b, pb, qb) {
                return None;
            }
            // for every entry of a, find the entry of b with the same key
            let mut x = qa;
            let mut i = 0u64;
            while i < va {
                let ke = item_end(a, x, depth - 1)?;
                let ve = item_end(a, ke, depth - 1)?;
                let mut y = qb;
                let mut j = 0u64;
                let mut found = 0u8;
                while j < vb {
                    let ke2 = item_end(b, y, depth - 1)?;
                    let ve2 = item_end(b, ke2, depth - 1)?;
                    if bytes_eq(a, x, ke, b, y, ke2) {
                        equiv_item(a, ke, b, ke2, depth - 1)?;
                        found += 1;
                    }
                    y = ve2;
                    j += 1;
                }
                if found != 1 {
                    return None;
                }
                x = ve;
                i += 1;
            }
            let eb = item_end(b, pb, depth)?;
            Some((x, eb))
        }
        _ => None,
    }
}

/// `a` and `b` are each exactly one item and equal up to map-entry order
pub fn equivalent(a: &[u8], b: &[u8]) -> bool {
    matches!(equiv_item(a, 0, b, 0, 8), Some((x, y)) if x == a.len() && y == b.len())
}
