//! C18 — protocol identifier tables are exact: every listed name/number, nothing else.
//! Oracle tables written from CTAP 2.1 (§6.4 versions/extensions/transports, §6.5.5 PIN
//! sub-commands and permissions, §6.8 credential management sub-commands, §8.2 status codes,
//! §12.1 credProtect), WebAuthn §8 (attestation formats) and the U2F raw message format
//! (control bytes) — not from /repo.
use crate::util::*;
use ctap_types::ctap1::ControlByte;
use ctap_types::ctap2::client_pin::{Permissions, PinV1Subcommand};
use ctap_types::ctap2::credential_management::{CredentialProtectionPolicy, Subcommand};
use ctap_types::ctap2::get_info::{Extension, Transport, Version};
use ctap_types::ctap2::{AttestationStatementFormat, Error};
use ctap_types::serde::{cbor_deserialize, cbor_serialize};

const MAXLEN: usize = 19; // longest spelling ("thirdPartyPayment", 17) + 2

fn version_idx(v: Version) -> u8 {
    match v {
        Version::Fido2_0 => 0,
        Version::Fido2_1 => 1,
        Version::Fido2_1Pre => 2,
        Version::U2fV2 => 3,
        _ => 0xFF,
    }
}
const VERSION_SPELL: [&[u8]; 4] = [b"FIDO_2_0", b"FIDO_2_1", b"FIDO_2_1_PRE", b"U2F_V2"];

fn extension_idx(v: Extension) -> u8 {
    match v {
        Extension::CredProtect => 0,
        Extension::HmacSecret => 1,
        Extension::LargeBlobKey => 2,
        Extension::ThirdPartyPayment => 3,
        _ => 0xFF,
    }
}
const EXTENSION_SPELL: [&[u8]; 4] = [b"credProtect", b"hmac-secret", b"largeBlobKey", b"thirdPartyPayment"];

fn transport_idx(v: Transport) -> u8 {
    match v {
        Transport::Nfc => 0,
        Transport::Usb => 1,
        _ => 0xFF,
    }
}
const TRANSPORT_SPELL: [&[u8]; 2] = [b"nfc", b"usb"];

fn attfmt_idx(v: AttestationStatementFormat) -> u8 {
    match v {
        AttestationStatementFormat::None => 0,
        AttestationStatementFormat::Packed => 1,
        _ => 0xFF,
    }
}
const ATTFMT_SPELL: [&[u8]; 2] = [b"none", b"packed"];

/// index of the spelling equal to `s`, if any (and spellings are pairwise distinct: checked
/// by `c18_spellings_distinct`)
fn lookup(table: &[&[u8]], s: &[u8]) -> Option<u8> {
    let mut i = 0;
    while i < table.len() {
        if eq(table[i], s) {
            return Some(i as u8);
        }
        i += 1;
    }
    None
}

/// an arbitrary well-formed UTF-8 string of at most MAXLEN bytes
fn any_str(buf: &[u8; MAXLEN]) -> &str {
    let n: usize = kani::any();
    kani::assume(n <= MAXLEN);
    let s = &buf[..n];
    kani::assume(crate::utf8::is_valid(s));
    unsafe { core::str::from_utf8_unchecked(s) }
}

macro_rules! string_enum_harness {
    ($name:ident, $ty:ty, $idx:ident, $table:ident) => {
        /// every string of <= MAXLEN bytes: accepted iff it is exactly a listed spelling, and
        /// then as the variant that spelling belongs to (subsumes every single-character
        /// edit, case change, prefix, one-character extension and the empty string)
        #[kani::proof]
        #[kani::unwind(21)]
        fn $name() {
            let buf: [u8; MAXLEN] = kani::any();
            let s = any_str(&buf);
            let want = lookup(&$table, s.as_bytes());
            match <$ty>::try_from(s) {
                Ok(v) => {
                    assert!(want == Some($idx(v)), "accepted string is not the spelling of the returned variant");
                    let back: &str = v.into();
                    assert!(eq(back.as_bytes(), s.as_bytes()), "into(try_from(s)) != s");
                }
                Err(_) => assert!(want.is_none(), "a specified spelling was rejected"),
            }
            kani::cover!(want.is_some(), "some spelling reachable");
            kani::cover!(want.is_none() && s.len() > 0, "some other string reachable");
        }
    };
}
string_enum_harness!(c18_version_all_strings, Version, version_idx, VERSION_SPELL);
string_enum_harness!(c18_extension_all_strings, Extension, extension_idx, EXTENSION_SPELL);
string_enum_harness!(c18_transport_all_strings, Transport, transport_idx, TRANSPORT_SPELL);
string_enum_harness!(c18_attfmt_all_strings, AttestationStatementFormat, attfmt_idx, ATTFMT_SPELL);

/// every variant converts to exactly its specification spelling, and back
#[kani::proof]
#[kani::unwind(21)]
fn c18_string_enums_into() {
    let vs = [Version::Fido2_0, Version::Fido2_1, Version::Fido2_1Pre, Version::U2fV2];
    let mut i = 0;
    while i < 4 {
        let s: &str = vs[i].into();
        assert!(eq(s.as_bytes(), VERSION_SPELL[i]), "version spelling");
        assert!(version_idx(vs[i]) == i as u8);
        assert!(matches!(Version::try_from(s), Ok(v) if version_idx(v) == i as u8));
        i += 1;
    }
    let es = [Extension::CredProtect, Extension::HmacSecret, Extension::LargeBlobKey, Extension::ThirdPartyPayment];
    let mut i = 0;
    while i < 4 {
        let s: &str = es[i].into();
        assert!(eq(s.as_bytes(), EXTENSION_SPELL[i]), "extension spelling");
        assert!(matches!(Extension::try_from(s), Ok(v) if extension_idx(v) == i as u8));
        i += 1;
    }
    let ts = [Transport::Nfc, Transport::Usb];
    let mut i = 0;
    while i < 2 {
        let s: &str = ts[i].into();
        assert!(eq(s.as_bytes(), TRANSPORT_SPELL[i]), "transport spelling");
        assert!(matches!(Transport::try_from(s), Ok(v) if transport_idx(v) == i as u8));
        i += 1;
    }
    let fs = [AttestationStatementFormat::None, AttestationStatementFormat::Packed];
    let mut i = 0;
    while i < 2 {
        let s: &str = fs[i].into();
        assert!(eq(s.as_bytes(), ATTFMT_SPELL[i]), "attestation format spelling");
        assert!(matches!(AttestationStatementFormat::try_from(s), Ok(v) if attfmt_idx(v) == i as u8));
        i += 1;
    }
    kani::cover!(true, "reached");
}

/// the oracle tables themselves have pairwise distinct spellings
#[kani::proof]
#[kani::unwind(21)]
fn c18_spellings_distinct() {
    let tables: [&[&[u8]]; 4] = [&VERSION_SPELL, &EXTENSION_SPELL, &TRANSPORT_SPELL, &ATTFMT_SPELL];
    let mut t = 0;
    while t < 4 {
        let tab = tables[t];
        let mut i = 0;
        while i < tab.len() {
            let mut j = i + 1;
            while j < tab.len() {
                assert!(!eq(tab[i], tab[j]));
                j += 1;
            }
            i += 1;
        }
        t += 1;
    }
}

// ---------------------------------------------------------------- through the CBOR codec
macro_rules! string_enum_cbor {
    ($name:ident, $ty:ty, $idx:ident, $table:ident, $len:expr) => {
        /// a CBOR text item of exactly $len symbolic bytes: decodes iff it is a listed spelling
        #[kani::proof]
        #[kani::unwind(21)]
        #[kani::stub(core::str::from_utf8, crate::utf8::from_utf8_ref)]
        fn $name() {
            let c: [u8; $len] = kani::any();
            let mut msg = [0u8; $len + 1];
            msg[0] = 0x60 + $len as u8;
            let mut i = 0;
            while i < $len {
                msg[i + 1] = c[i];
                i += 1;
            }
            let want = if crate::utf8::is_valid(&c) { lookup(&$table, &c) } else { None };
            match cbor_deserialize::<$ty>(&msg) {
                Ok(v) => assert!(want == Some($idx(v)), "decoded text is not the spelling of the returned variant"),
                Err(_) => assert!(want.is_none(), "a specified spelling failed to decode"),
            }
            kani::cover!(want.is_some(), "a spelling of this length exists");
        }
    };
}
string_enum_cbor!(c18_version_cbor_len8, Version, version_idx, VERSION_SPELL, 8);
string_enum_cbor!(c18_version_cbor_len12, Version, version_idx, VERSION_SPELL, 12);
string_enum_cbor!(c18_version_cbor_len6, Version, version_idx, VERSION_SPELL, 6);
string_enum_cbor!(c18_extension_cbor_len11, Extension, extension_idx, EXTENSION_SPELL, 11);
string_enum_cbor!(c18_extension_cbor_len12, Extension, extension_idx, EXTENSION_SPELL, 12);
string_enum_cbor!(c18_extension_cbor_len17, Extension, extension_idx, EXTENSION_SPELL, 17);
string_enum_cbor!(c18_transport_cbor_len3, Transport, transport_idx, TRANSPORT_SPELL, 3);
string_enum_cbor!(c18_attfmt_cbor_len4, AttestationStatementFormat, attfmt_idx, ATTFMT_SPELL, 4);
string_enum_cbor!(c18_attfmt_cbor_len6, AttestationStatementFormat, attfmt_idx, ATTFMT_SPELL, 6);

/// every variant serialises to the text item of its spelling
#[kani::proof]
#[kani::unwind(21)]
fn c18_string_enums_serialize() {
    let mut buf = [0u8; 24];
    let out = cbor_serialize(&Version::Fido2_1Pre, &mut buf).unwrap();
    assert!(out.len() == 13 && out[0] == 0x6c && eq(&out[1..], b"FIDO_2_1_PRE"));
    let mut buf = [0u8; 24];
    let out = cbor_serialize(&Version::Fido2_0, &mut buf).unwrap();
    assert!(out[0] == 0x68 && eq(&out[1..], b"FIDO_2_0"));
    let mut buf = [0u8; 24];
    let out = cbor_serialize(&Version::Fido2_1, &mut buf).unwrap();
    assert!(out[0] == 0x68 && eq(&out[1..], b"FIDO_2_1"));
    let mut buf = [0u8; 24];
    let out = cbor_serialize(&Version::U2fV2, &mut buf).unwrap();
    assert!(out[0] == 0x66 && eq(&out[1..], b"U2F_V2"));
    let mut buf = [0u8; 24];
    let out = cbor_serialize(&Extension::ThirdPartyPayment, &mut buf).unwrap();
    assert!(out[0] == 0x71 && eq(&out[1..], b"thirdPartyPayment"));
    let mut buf = [0u8; 24];
    let out = cbor_serialize(&Extension::CredProtect, &mut buf).unwrap();
    assert!(out[0] == 0x6b && eq(&out[1..], b"credProtect"));
    let mut buf = [0u8; 24];
    let out = cbor_serialize(&Extension::HmacSecret, &mut buf).unwrap();
    assert!(out[0] == 0x6b && eq(&out[1..], b"hmac-secret"));
    let mut buf = [0u8; 24];
    let out = cbor_serialize(&Extension::LargeBlobKey, &mut buf).unwrap();
    assert!(out[0] == 0x6c && eq(&out[1..], b"largeBlobKey"));
    let mut buf = [0u8; 24];
    let out = cbor_serialize(&Transport::Nfc, &mut buf).unwrap();
    assert!(out[0] == 0x63 && eq(&out[1..], b"nfc"));
    let mut buf = [0u8; 24];
    let out = cbor_serialize(&Transport::Usb, &mut buf).unwrap();
    assert!(out[0] == 0x63 && eq(&out[1..], b"usb"));
    let mut buf = [0u8; 24];
    let out = cbor_serialize(&AttestationStatementFormat::None, &mut buf).unwrap();
    assert!(out[0] == 0x64 && eq(&out[1..], b"none"));
    let mut buf = [0u8; 24];
    let out = cbor_serialize(&AttestationStatementFormat::Packed, &mut buf).unwrap();
    assert!(out[0] == 0x66 && eq(&out[1..], b"packed"));
    kani::cover!(true, "reached");
}

// ---------------------------------------------------------------- numeric enumerations
/// reference decoder for one minimal-form CBOR unsigned integer at the start of `b`
fn ref_uint(b: &[u8]) -> Option<u64> {
    if b.is_empty() {
        return None;
    }
    let ib = b[0];
    if ib >> 5 != 0 {
        return None;
    }
    let ai = ib & 0x1f;
    let n: usize = match ai {
        0..=23 => return Some(ai as u64),
        24 => 1,
        25 => 2,
        26 => 4,
        27 => 8,
        _ => return None,
    };
    if b.len() < 1 + n {
        return None;
    }
    let mut v: u64 = 0;
    let mut i = 0;
    while i < n {
        v = (v << 8) | b[1 + i] as u64;
        i += 1;
    }
    let min: u64 = match n {
        1 => 24,
        2 => 0x100,
        4 => 0x1_0000,
        _ => 0x1_0000_0000,
    };
    if v < min {
        None
    } else {
        Some(v)
    }
}

fn pin_sub_num(v: &PinV1Subcommand) -> u8 {
    match v {
        PinV1Subcommand::GetRetries => 1,
        PinV1Subcommand::GetKeyAgreement => 2,
        PinV1Subcommand::SetPin => 3,
        PinV1Subcommand::ChangePin => 4,
        PinV1Subcommand::GetPinToken => 5,
        PinV1Subcommand::GetPinUvAuthTokenUsingUvWithPermissions => 6,
        PinV1Subcommand::GetUVRetries => 7,
        PinV1Subcommand::GetPinUvAuthTokenUsingPinWithPermissions => 9,
        _ => 0,
    }
}
fn pin_sub_valid(n: u64) -> bool {
    (1..=7).contains(&n) || n == 9
}
fn cm_sub_num(v: &Subcommand) -> u8 {
    match v {
        Subcommand::GetCredsMetadata => 1,
        Subcommand::EnumerateRpsBegin => 2,
        Subcommand::EnumerateRpsGetNextRp => 3,
        Subcommand::EnumerateCredentialsBegin => 4,
        Subcommand::EnumerateCredentialsGetNextCredential => 5,
        Subcommand::DeleteCredential => 6,
        Subcommand::UpdateUserInformation => 7,
        _ => 0,
    }
}
fn cm_sub_valid(n: u64) -> bool {
    (1..=7).contains(&n)
}
fn cp_num(v: &CredentialProtectionPolicy) -> u8 {
    match v {
        CredentialProtectionPolicy::Optional => 1,
        CredentialProtectionPolicy::OptionalWithCredentialIdList => 2,
        CredentialProtectionPolicy::Required => 3,
    }
}
fn cp_valid(n: u64) -> bool {
    (1..=3).contains(&n)
}

macro_rules! numeric_enum_cbor {
    ($name:ident, $ty:ty, $num:ident, $valid:ident) => {
        /// a fully symbolic CBOR item of up to 9 bytes (every head form, so every value up to
        /// 2^64-1, every non-minimal form and every other major type)
        #[kani::proof]
        #[kani::unwind(12)]
        fn $name() {
            let buf: [u8; 9] = kani::any();
            let n: usize = kani::any();
            kani::assume(n <= 9);
            let msg = &buf[..n];
            let want = ref_uint(msg);
            match cbor_deserialize::<$ty>(msg) {
                Ok(v) => {
                    assert!(matches!(want, Some(x) if $valid(x) && x == $num(&v) as u64),
                        "accepted integer is not the number of the returned variant");
                }
                Err(_) => assert!(!matches!(want, Some(x) if $valid(x)), "a specified number was rejected"),
            }
            kani::cover!(matches!(want, Some(x) if $valid(x)), "valid number reachable");
            kani::cover!(matches!(want, Some(x) if x > 0xFFFF_FFFF), "9-byte head reachable");
        }
    };
}
numeric_enum_cbor!(c18_pin_subcommand_cbor, PinV1Subcommand, pin_sub_num, pin_sub_valid);
numeric_enum_cbor!(c18_cm_subcommand_cbor, Subcommand, cm_sub_num, cm_sub_valid);
numeric_enum_cbor!(c18_cred_protect_cbor, CredentialProtectionPolicy, cp_num, cp_valid);

/// numeric enumerations serialise to their number in shortest form
#[kani::proof]
#[kani::unwind(12)]
fn c18_numeric_enums_serialize() {
    let pins = [
        (PinV1Subcommand::GetRetries, 1u8), (PinV1Subcommand::GetKeyAgreement, 2), (PinV1Subcommand::SetPin, 3),
        (PinV1Subcommand::ChangePin, 4), (PinV1Subcommand::GetPinToken, 5),
        (PinV1Subcommand::GetPinUvAuthTokenUsingUvWithPermissions, 6), (PinV1Subcommand::GetUVRetries, 7),
        (PinV1Subcommand::GetPinUvAuthTokenUsingPinWithPermissions, 9),
    ];
    let mut i = 0;
    while i < pins.len() {
        let mut buf = [0u8; 4];
        let out = cbor_serialize(&pins[i].0, &mut buf).unwrap();
        assert!(out.len() == 1 && out[0] == pins[i].1, "PIN sub-command number");
        i += 1;
    }
    let cms = [
        (Subcommand::GetCredsMetadata, 1u8), (Subcommand::EnumerateRpsBegin, 2), (Subcommand::EnumerateRpsGetNextRp, 3),
        (Subcommand::EnumerateCredentialsBegin, 4), (Subcommand::EnumerateCredentialsGetNextCredential, 5),
        (Subcommand::DeleteCredential, 6), (Subcommand::UpdateUserInformation, 7),
    ];
    let mut i = 0;
    while i < cms.len() {
        let mut buf = [0u8; 4];
        let out = cbor_serialize(&cms[i].0, &mut buf).unwrap();
        assert!(out.len() == 1 && out[0] == cms[i].1, "credential-management sub-command number");
        i += 1;
    }
    let cps = [
        (CredentialProtectionPolicy::Optional, 1u8), (CredentialProtectionPolicy::OptionalWithCredentialIdList, 2),
        (CredentialProtectionPolicy::Required, 3),
    ];
    let mut i = 0;
    while i < cps.len() {
        let mut buf = [0u8; 4];
        let out = cbor_serialize(&cps[i].0, &mut buf).unwrap();
        assert!(out.len() == 1 && out[0] == cps[i].1, "credProtect number");
        i += 1;
    }
    kani::cover!(true, "reached");
}

/// byte-valued tables: all 256 values
#[kani::proof]
fn c18_byte_tables() {
    let b: u8 = kani::any();
    match CredentialProtectionPolicy::try_from(b) {
        Ok(v) => assert!(cp_valid(b as u64) && cp_num(&v) == b, "credProtect TryFrom<u8>"),
        Err(e) => {
            assert!(!cp_valid(b as u64), "credProtect 1..=3 must be accepted");
            assert!(e == Error::InvalidParameter);
        }
    }
    match ControlByte::try_from(b) {
        Ok(v) => {
            let want = match v {
                ControlByte::CheckOnly => 0x07,
                ControlByte::EnforceUserPresenceAndSign => 0x03,
                ControlByte::DontEnforceUserPresenceAndSign => 0x08,
            };
            assert!(b == want && v as u8 == b, "U2F control byte");
        }
        Err(_) => assert!(b != 0x03 && b != 0x07 && b != 0x08, "U2F control bytes 3, 7, 8 must be accepted"),
    }
    // PIN/UV auth token permissions (CTAP 2.1 §6.5.5.7): mc 0x01, ga 0x02, cm 0x04, be 0x08, lbw 0x10, acfg 0x20
    match Permissions::from_bits(b) {
        Some(p) => assert!(b & 0xC0 == 0 && p.bits() == b, "permission bits"),
        None => assert!(b & 0xC0 != 0, "all six permission bits must be known"),
    }
    assert!(Permissions::MAKE_CREDENTIAL.bits() == 0x01);
    assert!(Permissions::GET_ASSERTION.bits() == 0x02);
    assert!(Permissions::CREDENTIAL_MANAGEMENT.bits() == 0x04);
    assert!(Permissions::BIO_ENROLLMENT.bits() == 0x08);
    assert!(Permissions::LARGE_BLOB_WRITE.bits() == 0x10);
    assert!(Permissions::AUTHENTICATOR_CONFIGURATION.bits() == 0x20);
    kani::cover!(b == 0x08, "reached");
}

/// CTAP status codes (CTAP 2.1 §8.2)
#[kani::proof]
fn c18_status_codes() {
    include!("c18_status.in");
    kani::cover!(true, "reached");
}

#[cfg(feature = "replay")]
include!("gen/replay.rs");
