//! C09 — CTAP1/U2F responses are encoded in the U2F raw message layout.
//! Oracle: FIDO U2F Raw Message Formats v1.2 §4.3 (registration response), §5.4
//! (authentication response), §6 (version), written here as plain concatenations.
use crate::util::*;
use ctap_types::ctap1::{authenticate, register, Response};
use ctap_types::Bytes;

/// fill `buf` with `prefill` symbolic bytes; returns a copy of them
fn prefill<const S: usize, const P: usize>(buf: &mut iso7816::Data<S>) -> [u8; P] {
    let pre: [u8; P] = kani::any();
    let mut i = 0;
    while i < P {
        buf.push(pre[i]).unwrap();
        i += 1;
    }
    pre
}

fn prefix_untouched<const S: usize, const P: usize>(buf: &iso7816::Data<S>, pre: &[u8; P]) {
    let mut i = 0;
    while i < P {
        assert!(buf[i] == pre[i], "pre-existing buffer contents must not be disturbed");
        i += 1;
    }
}

/// registration response with key handle KH, certificate CERT, signature SIG bytes, into a
/// buffer of capacity S that already holds P bytes
fn register_instance<const S: usize, const P: usize, const KH: usize, const CERT: usize, const SIG: usize>() {
    let header: u8 = kani::any();
    let x: [u8; 32] = kani::any();
    let y: [u8; 32] = kani::any();
    let kh: [u8; KH] = kani::any();
    let cert: [u8; CERT] = kani::any();
    let sig: [u8; SIG] = kani::any();
    let key = cosey::EcdhEsHkdf256PublicKey {
        x: Bytes::from_slice(&x).unwrap(),
        y: Bytes::from_slice(&y).unwrap(),
    };
    let resp = register::Response::new(
        header,
        &key,
        Bytes::from_slice(&kh).unwrap(),
        Bytes::from_slice(&sig).unwrap(),
        Bytes::from_slice(&cert).unwrap(),
    );
    // 0x04 || x || y
    assert!(resp.public_key.len() == 65 && resp.public_key[0] == 0x04, "uncompressed point marker");
    assert!(eq(&resp.public_key[1..33], &x) && eq(&resp.public_key[33..65], &y), "public key = 0x04 || x || y");

    let mut buf: iso7816::Data<S> = iso7816::Data::new();
    let pre = prefill::<S, P>(&mut buf);
    let r = Response::Register(resp).serialize(&mut buf);
    let total = 1 + 65 + 1 + KH + CERT + SIG;
    if P + total <= S {
        assert!(r.is_ok(), "response that fits must be encoded");
        assert!(buf.len() == P + total, "appended length = sum of the parts");
        prefix_untouched(&buf, &pre);
        let o = &buf[P..];
        assert!(o[0] == header, "reserved/header byte first");
        assert!(o[1] == 0x04 && eq(&o[2..34], &x) && eq(&o[34..66], &y), "65-byte public key");
        assert!(o[66] as usize == KH, "key-handle length byte");
        assert!(eq(&o[67..67 + KH], &kh), "key handle");
        assert!(eq(&o[67 + KH..67 + KH + CERT], &cert), "attestation certificate");
        assert!(eq(&o[67 + KH + CERT..], &sig), "signature");

    } else {
        assert!(r.is_err(), "response that does not fit must report failure");

    }
    kani::cover!(true, "instance reached its verdict");
}

fn authenticate_instance<const S: usize, const P: usize, const SIG: usize>() {
    let up: u8 = kani::any();
    let count: u32 = kani::any();
    let sig: [u8; SIG] = kani::any();
    let resp = authenticate::Response { user_presence: up, count, signature: Bytes::from_slice(&sig).unwrap() };
    let mut buf: iso7816::Data<S> = iso7816::Data::new();
    let pre = prefill::<S, P>(&mut buf);
    let r = Response::Authenticate(resp).serialize(&mut buf);
    let total = 1 + 4 + SIG;
    if P + total <= S {
        assert!(r.is_ok(), "response that fits must be encoded");
        assert!(buf.len() == P + total, "appended length = sum of the parts");
        prefix_untouched(&buf, &pre);
        let o = &buf[P..];
        assert!(o[0] == up, "user presence byte");
        assert!(o[1] == (count >> 24) as u8 && o[2] == (count >> 16) as u8 && o[3] == (count >> 8) as u8 && o[4] == count as u8,
            "counter is 4 bytes big-endian");
        assert!(eq(&o[5..], &sig), "signature");

    } else {
        assert!(r.is_err(), "response that does not fit must report failure");

    }
    kani::cover!(true, "instance reached its verdict");
}

fn version_instance<const S: usize, const P: usize>() {
    let v: [u8; 6] = kani::any();
    let mut buf: iso7816::Data<S> = iso7816::Data::new();
    let pre = prefill::<S, P>(&mut buf);
    let r = Response::Version(v).serialize(&mut buf);
    if P + 6 <= S {
        assert!(r.is_ok());
        assert!(buf.len() == P + 6);
        prefix_untouched(&buf, &pre);
        assert!(eq(&buf[P..], &v), "six version bytes");

    } else {
        assert!(r.is_err());

    }
    kani::cover!(true, "instance reached its verdict");
}

macro_rules! reg {
    ($name:ident, $s:expr, $p:expr, $kh:expr, $cert:expr, $sig:expr, $unwind:expr) => {
        #[kani::proof]
        #[kani::unwind($unwind)]
        fn $name() {
            register_instance::<{ $s }, { $p }, { $kh }, { $cert }, { $sig }>();
        }
    };
}
macro_rules! auth {
    ($name:ident, $s:expr, $p:expr, $sig:expr) => {
        #[kani::proof]
        #[kani::unwind(80)]
        fn $name() {
            authenticate_instance::<{ $s }, { $p }, { $sig }>();
        }
    };
}
macro_rules! ver {
    ($name:ident, $s:expr, $p:expr) => {
        #[kani::proof]
        #[kani::unwind(12)]
        fn $name() {
            version_instance::<{ $s }, { $p }>();
        }
    };
}

// registration: kh 8, cert 16, sig 8 => total 99; every capacity around each part boundary
reg!(c09_reg_s0, 0, 0, 8, 16, 8, 70);
reg!(c09_reg_s1, 1, 0, 8, 16, 8, 70);
reg!(c09_reg_s65, 65, 0, 8, 16, 8, 70);
reg!(c09_reg_s66, 66, 0, 8, 16, 8, 70);
reg!(c09_reg_s67, 67, 0, 8, 16, 8, 70);
reg!(c09_reg_s74, 74, 0, 8, 16, 8, 70);
reg!(c09_reg_s75, 75, 0, 8, 16, 8, 70);
reg!(c09_reg_s90, 90, 0, 8, 16, 8, 70);
reg!(c09_reg_s91, 91, 0, 8, 16, 8, 70);
reg!(c09_reg_s98, 98, 0, 8, 16, 8, 70);
reg!(c09_reg_s99, 99, 0, 8, 16, 8, 70);
reg!(c09_reg_s100, 100, 0, 8, 16, 8, 70);
// pre-filled buffers
reg!(c09_reg_s102_p3, 102, 3, 8, 16, 8, 70);
reg!(c09_reg_s101_p3, 101, 3, 8, 16, 8, 70);
reg!(c09_reg_s99_p99, 99, 99, 8, 16, 8, 110);
// empty parts
reg!(c09_reg_empty_parts, 67, 0, 0, 0, 0, 70);
reg!(c09_reg_empty_parts_short, 66, 0, 0, 0, 0, 70);
// maximum key handle (length byte 255), signature 72
reg!(c09_reg_kh255, 400, 0, 255, 1, 72, 260);
reg!(c09_reg_kh255_short, 394, 0, 255, 1, 72, 260);
reg!(c09_reg_kh254, 400, 2, 254, 0, 71, 260);
// maximum certificate
reg!(c09_reg_cert1024, 1200, 0, 1, 1024, 72, 1030);
reg!(c09_reg_cert1024_short, 1163, 0, 1, 1024, 72, 1030);
reg!(c09_reg_cert1023, 1163, 1, 1, 1023, 72, 1030);
// the largest possible response 1+65+1+255+1024+72 = 1418
reg!(c09_reg_max, 1418, 0, 255, 1024, 72, 1030);
reg!(c09_reg_max_short, 1417, 0, 255, 1024, 72, 1030);
reg!(c09_reg_max_s2048_p7, 2048, 7, 255, 1024, 72, 1030);

auth!(c09_auth_s0, 0, 0, 72);
auth!(c09_auth_s1, 1, 0, 72);
auth!(c09_auth_s4, 4, 0, 72);
auth!(c09_auth_s5, 5, 0, 72);
auth!(c09_auth_s76, 76, 0, 72);
auth!(c09_auth_s77, 77, 0, 72);
auth!(c09_auth_s78, 78, 0, 72);
auth!(c09_auth_s80_p3, 80, 3, 72);
auth!(c09_auth_s79_p3, 79, 3, 72);
auth!(c09_auth_sig0, 5, 0, 0);
auth!(c09_auth_sig71, 76, 0, 71);
auth!(c09_auth_s1024_p64, 1024, 64, 70);

ver!(c09_ver_s0, 0, 0);
ver!(c09_ver_s5, 5, 0);
ver!(c09_ver_s6, 6, 0);
ver!(c09_ver_s7_p1, 7, 1);
ver!(c09_ver_s7_p2, 7, 2);
ver!(c09_ver_s64_p10, 64, 10);

#[cfg(feature = "replay")]
include!("gen/replay.rs");
