//! C19 — generated fuzzing inputs are always memory-safe, valid request values.
//! `<T as Arbitrary>::arbitrary(&mut Unstructured::new(bytes))` on FULLY symbolic bytes of
//! symbolic length.  Kani's implicit checks (panic/unwrap, bounds, overflow, invalid pointer,
//! unreachable_unchecked) are the "never panics / memory-safe" oracle; the explicit assertions
//! check that every produced text field is well-formed UTF-8 and every bounded field is within
//! its capacity.  Requires the crate's `arbitrary` feature.
#![cfg(feature = "arbitrary")]
use crate::utf8::is_valid;
use arbitrary::{Arbitrary, Unstructured};
use ctap_types::ctap2::{client_pin, credential_management, get_assertion, large_blobs, make_credential};
use ctap_types::webauthn::{
    FilteredPublicKeyCredentialParameters, PublicKeyCredentialDescriptorRef, PublicKeyCredentialRpEntity,
    PublicKeyCredentialUserEntity,
};
use ctap_types::{authenticator, ctap1, ctap2};

fn ok_text(s: &str, cap: usize) -> bool {
    s.len() <= cap && is_valid(s.as_bytes())
}
fn ok_opt_text<const N: usize>(s: &Option<ctap_types::String<N>>) -> bool {
    match s {
        Some(s) => ok_text(s.as_str(), N),
        None => true,
    }
}

fn check_rp(v: &PublicKeyCredentialRpEntity) {
    assert!(ok_text(v.id.as_str(), 256), "rp id valid UTF-8 within capacity");
    assert!(ok_opt_text(&v.name), "rp name valid UTF-8 within capacity");
    let c = v.clone();
    assert!(c.id.len() == v.id.len());
}
fn check_user(v: &PublicKeyCredentialUserEntity) {
    assert!(v.id.len() <= 64, "user id within capacity");
    assert!(ok_opt_text(&v.icon) && ok_opt_text(&v.name) && ok_opt_text(&v.display_name), "user texts valid");
    let c = v.clone();
    assert!(c.id.len() == v.id.len());
}
fn check_desc(v: &PublicKeyCredentialDescriptorRef<'_>) {
    assert!(is_valid(v.key_type.as_bytes()), "descriptor type valid UTF-8");
}

macro_rules! arb {
    ($name:ident, $ty:ty, $n:expr, $unwind:expr, $check:expr) => {
        #[kani::proof]
        #[kani::unwind($unwind)]
        #[kani::stub(core::str::from_utf8, crate::utf8::from_utf8_ref)]
        fn $name() {
            let bytes: [u8; $n] = kani::any();
            let len: usize = kani::any();
            kani::assume(len <= $n);
            let mut u = Unstructured::new(&bytes[..len]);
            let r = <$ty as Arbitrary>::arbitrary(&mut u);
            if let Ok(v) = &r {
                let f: fn(&$ty) = $check;
                f(v);
            }
            kani::cover!(r.is_ok(), "some input yields a value");
        }
    };
}

arb!(c19_rp_entity, PublicKeyCredentialRpEntity, 14, 20, |v| check_rp(v));
arb!(c19_user_entity, PublicKeyCredentialUserEntity, 12, 20, |v| check_user(v));
arb!(c19_descriptor_ref, PublicKeyCredentialDescriptorRef<'_>, 12, 20, |v| check_desc(v));
arb!(c19_filtered_params, FilteredPublicKeyCredentialParameters, 12, 20, |v| {
    assert!(v.0.len() <= 2, "at most two known algorithms");
    let mut i = 0;
    while i < v.0.len() {
        assert!(v.0[i].alg == -7 || v.0[i].alg == -8, "only known algorithms are generated");
        i += 1;
    }
});
arb!(c19_hmac_secret_input, get_assertion::HmacSecretInput, 24, 60, |v| {
    assert!(v.key_agreement.x.len() <= 32 && v.key_agreement.y.len() <= 32 && v.salt_enc.len() <= 80 && v.salt_auth.len() <= 32);
});
arb!(c19_subcommand_params, credential_management::SubcommandParameters<'_>, 6, 40, |v| {
    if let Some(d) = &v.credential_id {
        check_desc(d);
    }
    if let Some(u) = &v.user {
        check_user(u);
    }
});
arb!(c19_att_formats_pref, ctap2::AttestationFormatsPreference, 8, 12, |v| {
    assert!(v.known_formats().len() <= 2);
});
arb!(c19_large_blobs_request, large_blobs::Request<'_>, 24, 30, |v| {
    let c = v.clone();
    assert!(c.offset == v.offset);
});
arb!(c19_client_pin_request, client_pin::Request<'_>, 10, 40, |v| {
    if let Some(s) = v.rp_id {
        assert!(is_valid(s.as_bytes()), "rp id valid UTF-8");
    }
});
arb!(c19_cred_mgmt_request, credential_management::Request<'_>, 6, 40, |v| {
    if let Some(p) = &v.sub_command_params {
        if let Some(u) = &p.user {
            check_user(u);
        }
    }
});
arb!(c19_ctap1_request, ctap1::Request<'_>, 72, 76, |v| {
    match v {
        ctap1::Request::Register(r) => assert!(r.challenge.len() == 32 && r.app_id.len() == 32),
        ctap1::Request::Authenticate(a) => assert!(a.challenge.len() == 32 && a.app_id.len() == 32),
        ctap1::Request::Version => {}
    }
    let c = v.clone();
    assert!(matches!((&c, v), (ctap1::Request::Version, ctap1::Request::Version) | (ctap1::Request::Register(_), ctap1::Request::Register(_))
        | (ctap1::Request::Authenticate(_), ctap1::Request::Authenticate(_))));
});
arb!(c19_get_assertion_request, get_assertion::Request<'_>, 4, 40, |v| {
    assert!(is_valid(v.rp_id.as_bytes()), "rp id valid UTF-8");
});
arb!(c19_make_credential_request, make_credential::Request<'_>, 4, 40, |v| {
    check_rp(&v.rp);
    check_user(&v.user);
});
// the derived enum wrappers choose a variant from the first bytes: tiny inputs, no-panic only
arb!(c19_ctap2_request_enum, ctap2::Request<'_>, 2, 40, |_v| {});
arb!(c19_authenticator_request_enum, authenticator::Request<'_>, 2, 40, |_v| {});

#[cfg(feature = "replay")]
include!("gen/replay.rs");
