//! C10 — each request reaches exactly the authenticator method for its command.
//! A recording mock implements both authenticator traits; its behaviour (success with a
//! planted marker / one of a table of distinct errors) is symbolic.
use ctap_types::ctap1;
use ctap_types::ctap2::{self, client_pin, credential_management, get_assertion, get_info, large_blobs, make_credential};
use ctap_types::ctap2::{Error, Request, Response, VendorOperation};
use ctap_types::webauthn::PublicKeyCredentialDescriptor;
use ctap_types::{Bytes, Rpc, String, Vec};

const H_GET_INFO: usize = 0;
const H_MC: usize = 1;
const H_GA: usize = 2;
const H_GNA: usize = 3;
const H_RESET: usize = 4;
const H_PIN: usize = 5;
const H_CM: usize = 6;
const H_SEL: usize = 7;
const H_VENDOR: usize = 8;
const H_LB: usize = 9;
const H_REGISTER: usize = 10;
const H_AUTH: usize = 11;
const NH: usize = 12;

const ERRS: [Error; 6] = [
    Error::InvalidParameter,
    Error::PinInvalid,
    Error::NoCredentials,
    Error::OperationDenied,
    Error::InvalidCommand,
    Error::Other,
];
const ERRS1: [ctap1::Error; 3] = [
    ctap1::Error::ConditionsOfUseNotSatisfied,
    ctap1::Error::IncorrectDataParameter,
    ctap1::Error::InstructionNotSupportedOrInvalid,
];

struct Mock {
    calls: [u8; NH],
    fail: bool,
    err: Error,
    err1: ctap1::Error,
    marker: u32,
    saw: usize,
    vendor: u8,
}

impl Mock {
    fn any() -> Self {
        let i: usize = kani::any();
        kani::assume(i < ERRS.len());
        let j: usize = kani::any();
        kani::assume(j < ERRS1.len());
        Mock { calls: [0; NH], fail: kani::any(), err: ERRS[i], err1: ERRS1[j], marker: kani::any(), saw: 0, vendor: 0 }
    }
    fn hit(&mut self, h: usize) {
        self.calls[h] = self.calls[h].saturating_add(1);
    }
    fn exactly(&self, h: usize) -> bool {
        let mut i = 0;
        while i < NH {
            if self.calls[i] != if i == h { 1 } else { 0 } {
                return false;
            }
            i += 1;
        }
        true
    }
    fn none_called(&self) -> bool {
        let mut i = 0;
        while i < NH {
            if self.calls[i] != 0 {
                return false;
            }
            i += 1;
        }
        true
    }
}

fn ga_response(marker: u32) -> get_assertion::Response {
    let mut r = get_assertion::ResponseBuilder {
        credential: PublicKeyCredentialDescriptor { id: Bytes::new(), key_type: String::new() },
        auth_data: Bytes::new(),
        signature: Bytes::new(),
    }
    .build();
    r.number_of_credentials = Some(marker);
    r
}

impl ctap2::Authenticator for Mock {
    fn get_info(&mut self) -> get_info::Response {
        self.hit(H_GET_INFO);
        let mut r = get_info::ResponseBuilder { versions: Vec::new(), aaguid: Bytes::new() }.build();
        r.max_msg_size = Some(self.marker as usize);
        r
    }
    fn make_credential(&mut self, request: &make_credential::Request) -> ctap2::Result<make_credential::Response> {
        self.hit(H_MC);
        self.saw = request as *const _ as usize;
        if self.fail {
            return Err(self.err);
        }
        let mut r = make_credential::ResponseBuilder { fmt: ctap2::AttestationStatementFormat::None, auth_data: Bytes::new() }.build();
        r.ep_att = Some(self.marker & 1 == 1);
        Ok(r)
    }
    fn get_assertion(&mut self, request: &get_assertion::Request) -> ctap2::Result<get_assertion::Response> {
        self.hit(H_GA);
        self.saw = request as *const _ as usize;
        if self.fail {
            return Err(self.err);
        }
        Ok(ga_response(self.marker))
    }
    fn get_next_assertion(&mut self) -> ctap2::Result<get_assertion::Response> {
        self.hit(H_GNA);
        if self.fail {
            return Err(self.err);
        }
        Ok(ga_response(self.marker))
    }
    fn reset(&mut self) -> ctap2::Result<()> {
        self.hit(H_RESET);
        if self.fail {
            return Err(self.err);
        }
        Ok(())
    }
    fn client_pin(&mut self, request: &client_pin::Request) -> ctap2::Result<client_pin::Response> {
        self.hit(H_PIN);
        self.saw = request as *const _ as usize;
        if self.fail {
            return Err(self.err);
        }
        let mut r = client_pin::Response::default();
        r.retries = Some(self.marker as u8);
        Ok(r)
    }
    fn credential_management(&mut self, request: &credential_management::Request) -> ctap2::Result<credential_management::Response> {
        self.hit(H_CM);
        self.saw = request as *const _ as usize;
        if self.fail {
            return Err(self.err);
        }
        let mut r = credential_management::Response::default();
        r.total_rps = Some(self.marker);
        Ok(r)
    }
    fn selection(&mut self) -> ctap2::Result<()> {
        self.hit(H_SEL);
        if self.fail {
            return Err(self.err);
        }
        Ok(())
    }
    fn vendor(&mut self, op: VendorOperation) -> ctap2::Result<()> {
        self.hit(H_VENDOR);
        self.vendor = op.into();
        if self.fail {
            return Err(self.err);
        }
        Ok(())
    }
    fn large_blobs(&mut self, request: &large_blobs::Request) -> ctap2::Result<large_blobs::Response> {
        self.hit(H_LB);
        self.saw = request as *const _ as usize;
        if self.fail {
            return Err(self.err);
        }
        let mut r = large_blobs::Response::default();
        r.config = if self.marker & 1 == 1 { Some(Bytes::new()) } else { None };
        Ok(r)
    }
}

impl ctap1::Authenticator for Mock {
    fn register(&mut self, request: &ctap1::register::Request<'_>) -> ctap1::Result<ctap1::register::Response> {
        self.hit(H_REGISTER);
        self.saw = request as *const _ as usize;
        if self.fail {
            return Err(self.err1);
        }
        Ok(ctap1::register::Response {
            header_byte: self.marker as u8,
            public_key: Bytes::new(),
            key_handle: Bytes::new(),
            attestation_certificate: Bytes::new(),
            signature: Bytes::new(),
        })
    }
    fn authenticate(&mut self, request: &ctap1::authenticate::Request<'_>) -> ctap1::Result<ctap1::authenticate::Response> {
        self.hit(H_AUTH);
        self.saw = request as *const _ as usize;
        if self.fail {
            return Err(self.err1);
        }
        Ok(ctap1::authenticate::Response { user_presence: 1, count: self.marker, signature: Bytes::new() })
    }
}

/// a second mock that does NOT override large_blobs (default handler)
struct NoLargeBlobs {
    other_calls: u8,
}
impl ctap2::Authenticator for NoLargeBlobs {
    fn get_info(&mut self) -> get_info::Response {
        self.other_calls += 1;
        get_info::ResponseBuilder { versions: Vec::new(), aaguid: Bytes::new() }.build()
    }
    fn make_credential(&mut self, _: &make_credential::Request) -> ctap2::Result<make_credential::Response> {
        self.other_calls += 1;
        Err(Error::Other)
    }
    fn get_assertion(&mut self, _: &get_assertion::Request) -> ctap2::Result<get_assertion::Response> {
        self.other_calls += 1;
        Err(Error::Other)
    }
    fn get_next_assertion(&mut self) -> ctap2::Result<get_assertion::Response> {
        self.other_calls += 1;
        Err(Error::Other)
    }
    fn reset(&mut self) -> ctap2::Result<()> {
        self.other_calls += 1;
        Err(Error::Other)
    }
    fn client_pin(&mut self, _: &client_pin::Request) -> ctap2::Result<client_pin::Response> {
        self.other_calls += 1;
        Err(Error::Other)
    }
    fn credential_management(&mut self, _: &credential_management::Request) -> ctap2::Result<credential_management::Response> {
        self.other_calls += 1;
        Err(Error::Other)
    }
    fn selection(&mut self) -> ctap2::Result<()> {
        self.other_calls += 1;
        Err(Error::Other)
    }
    fn vendor(&mut self, _: VendorOperation) -> ctap2::Result<()> {
        self.other_calls += 1;
        Err(Error::Other)
    }
}

fn call2(m: &mut Mock, req: &Request<'_>, generic: bool) -> ctap2::Result<Response> {
    if generic {
        <Mock as Rpc<Error, Request<'_>, Response>>::call(m, req)
    } else {
        ctap2::Authenticator::call_ctap2(m, req)
    }
}

fn expect_err_or<F: FnOnce(&Response) -> bool>(m: &Mock, r: &ctap2::Result<Response>, ok: F) {
    match r {
        Err(e) => assert!(m.fail && *e == m.err, "handler error must be returned unchanged"),
        Ok(resp) => {
            assert!(!m.fail, "handler failed but dispatch reported success");
            assert!(ok(resp), "response must be the same command's variant carrying the handler's value");
        }
    }
}

// ---- parameter-less CTAP2 requests --------------------------------------------------
#[kani::proof]
#[kani::unwind(14)]
fn c10_get_info() {
    let generic: bool = kani::any();
    let mut m = Mock::any();
    let r = call2(&mut m, &Request::GetInfo, generic);
    assert!(m.exactly(H_GET_INFO), "exactly get_info, once");
    match r {
        Ok(Response::GetInfo(gi)) => assert!(gi.max_msg_size == Some(m.marker as usize), "handler's value returned"),
        _ => assert!(false, "GetInfo cannot fail"),
    }
    kani::cover!(generic, "generic entry point");
    kani::cover!(!generic, "protocol entry point");
}

#[kani::proof]
#[kani::unwind(14)]
fn c10_get_next_assertion() {
    let generic: bool = kani::any();
    let mut m = Mock::any();
    let r = call2(&mut m, &Request::GetNextAssertion, generic);
    assert!(m.exactly(H_GNA), "exactly get_next_assertion, once");
    expect_err_or(&m, &r, |resp| matches!(resp, Response::GetNextAssertion(x) if x.number_of_credentials == Some(m.marker)));
    kani::cover!(m.fail, "error path");
    kani::cover!(!m.fail, "success path");
}

#[kani::proof]
#[kani::unwind(14)]
fn c10_reset_selection() {
    let generic: bool = kani::any();
    let mut m = Mock::any();
    let r = call2(&mut m, &Request::Reset, generic);
    assert!(m.exactly(H_RESET), "exactly reset, once");
    expect_err_or(&m, &r, |resp| matches!(resp, Response::Reset));
    let mut m = Mock::any();
    let r = call2(&mut m, &Request::Selection, generic);
    assert!(m.exactly(H_SEL), "exactly selection, once");
    expect_err_or(&m, &r, |resp| matches!(resp, Response::Selection));
    kani::cover!(m.fail, "error path");
    kani::cover!(!m.fail, "success path");
}

/// every vendor code 0x40..=0x7f
#[kani::proof]
#[kani::unwind(14)]
fn c10_vendor() {
    let generic: bool = kani::any();
    let code: u8 = kani::any();
    let op = match VendorOperation::try_from(code) {
        Ok(op) => op,
        Err(_) => return,
    };
    let mut m = Mock::any();
    let r = call2(&mut m, &Request::Vendor(op), generic);
    assert!(m.exactly(H_VENDOR), "exactly vendor, once");
    assert!(m.vendor == code, "vendor code passed through unchanged");
    expect_err_or(&m, &r, |resp| matches!(resp, Response::Vendor));
    kani::cover!(code == 0x7f && !m.fail, "last vendor code, success");
}

// ---- parameter-bearing CTAP2 requests (obtained by decoding a minimal message) -------
const MC_MIN: [u8; 52] = [
    0x01, 0xa4, 0x01, 0x41, 0xaa, // clientDataHash h'aa'
    0x02, 0xa1, 0x62, 0x69, 0x64, 0x61, 0x72, // rp {"id": "r"}
    0x03, 0xa1, 0x62, 0x69, 0x64, 0x41, 0x75, // user {"id": h'75'}
    0x04, 0x81, 0xa2, 0x63, 0x61, 0x6c, 0x67, 0x26, 0x64, 0x74, 0x79, 0x70, 0x65, 0x6a, 0x70, 0x75, 0x62, 0x6c, 0x69, 0x63, 0x2d, 0x6b,
    0x65, 0x79, // [{"alg": -7, "type": "public-key"}]
    0, 0, 0, 0, 0, 0, 0, 0, 0,
];
const GA_MIN: [u8; 8] = [0x02, 0xa2, 0x01, 0x61, 0x72, 0x02, 0x41, 0xaa];
const CP_MIN: [u8; 6] = [0x06, 0xa2, 0x01, 0x01, 0x02, 0x01];
const CM_MIN: [u8; 4] = [0x0a, 0xa1, 0x01, 0x01];
const LB_MIN: [u8; 6] = [0x0c, 0xa2, 0x01, 0x08, 0x03, 0x00];

#[kani::proof]
#[kani::unwind(14)]
#[kani::stub(core::str::from_utf8, crate::utf8::from_utf8_assume_valid)]
fn c10_make_credential() {
    let generic: bool = kani::any();
    let req = match Request::deserialize(&MC_MIN[..43]) {
        Ok(r) => r,
        Err(_) => {
            assert!(false, "minimal MakeCredential must decode");
            return;
        }
    };
    let inner = match &req {
        Request::MakeCredential(i) => i as *const _ as usize,
        _ => 0,
    };
    let mut m = Mock::any();
    let r = call2(&mut m, &req, generic);
    assert!(m.exactly(H_MC), "exactly make_credential, once");
    assert!(m.saw == inner && inner != 0, "handler receives the request's own parameters");
    expect_err_or(&m, &r, |resp| matches!(resp, Response::MakeCredential(x) if x.ep_att == Some(m.marker & 1 == 1)));
    kani::cover!(m.fail, "error path");
    kani::cover!(!m.fail, "success path");
}

#[kani::proof]
#[kani::unwind(14)]
#[kani::stub(core::str::from_utf8, crate::utf8::from_utf8_assume_valid)]
fn c10_get_assertion() {
    let generic: bool = kani::any();
    let req = match Request::deserialize(&GA_MIN) {
        Ok(r) => r,
        Err(_) => {
            assert!(false, "minimal GetAssertion must decode");
            return;
        }
    };
    let inner = match &req {
        Request::GetAssertion(i) => i as *const _ as usize,
        _ => 0,
    };
    let mut m = Mock::any();
    let r = call2(&mut m, &req, generic);
    assert!(m.exactly(H_GA), "exactly get_assertion, once");
    assert!(m.saw == inner && inner != 0, "handler receives the request's own parameters");
    expect_err_or(&m, &r, |resp| matches!(resp, Response::GetAssertion(x) if x.number_of_credentials == Some(m.marker)));
    kani::cover!(m.fail, "error path");
    kani::cover!(!m.fail, "success path");
}

#[kani::proof]
#[kani::unwind(14)]
fn c10_client_pin() {
    let generic: bool = kani::any();
    let req = match Request::deserialize(&CP_MIN) {
        Ok(r) => r,
        Err(_) => {
            assert!(false, "minimal ClientPin must decode");
            return;
        }
    };
    let inner = match &req {
        Request::ClientPin(i) => i as *const _ as usize,
        _ => 0,
    };
    let mut m = Mock::any();
    let r = call2(&mut m, &req, generic);
    assert!(m.exactly(H_PIN), "exactly client_pin, once");
    assert!(m.saw == inner && inner != 0, "handler receives the request's own parameters");
    expect_err_or(&m, &r, |resp| matches!(resp, Response::ClientPin(x) if x.retries == Some(m.marker as u8)));
    kani::cover!(m.fail, "error path");
    kani::cover!(!m.fail, "success path");
}

#[kani::proof]
#[kani::unwind(14)]
fn c10_credential_management() {
    let generic: bool = kani::any();
    let req = match Request::deserialize(&CM_MIN) {
        Ok(r) => r,
        Err(_) => {
            assert!(false, "minimal CredentialManagement must decode");
            return;
        }
    };
    let inner = match &req {
        Request::CredentialManagement(i) => i as *const _ as usize,
        _ => 0,
    };
    let mut m = Mock::any();
    let r = call2(&mut m, &req, generic);
    assert!(m.exactly(H_CM), "exactly credential_management, once");
    assert!(m.saw == inner && inner != 0, "handler receives the request's own parameters");
    expect_err_or(&m, &r, |resp| matches!(resp, Response::CredentialManagement(x) if x.total_rps == Some(m.marker)));
    kani::cover!(m.fail, "error path");
    kani::cover!(!m.fail, "success path");
}

#[kani::proof]
#[kani::unwind(14)]
fn c10_large_blobs() {
    let generic: bool = kani::any();
    let req = match Request::deserialize(&LB_MIN) {
        Ok(r) => r,
        Err(_) => {
            assert!(false, "minimal LargeBlobs must decode");
            return;
        }
    };
    let inner = match &req {
        Request::LargeBlobs(i) => i as *const _ as usize,
        _ => 0,
    };
    let mut m = Mock::any();
    let r = call2(&mut m, &req, generic);
    assert!(m.exactly(H_LB), "exactly large_blobs, once");
    assert!(m.saw == inner && inner != 0, "handler receives the request's own parameters");
    expect_err_or(&m, &r, |resp| matches!(resp, Response::LargeBlobs(x) if x.config.is_some() == (m.marker & 1 == 1)));
    // an authenticator that does not implement large blobs answers InvalidCommand and calls nothing else
    let mut n = NoLargeBlobs { other_calls: 0 };
    let r = if generic {
        <NoLargeBlobs as Rpc<Error, Request<'_>, Response>>::call(&mut n, &req)
    } else {
        ctap2::Authenticator::call_ctap2(&mut n, &req)
    };
    assert!(matches!(r, Err(Error::InvalidCommand)), "default large_blobs => InvalidCommand");
    assert!(n.other_calls == 0, "no other handler called");
    kani::cover!(m.fail, "error path");
    kani::cover!(!m.fail, "success path");
}

// ---- CTAP1 ------------------------------------------------------------------------------
fn call1(m: &mut Mock, req: &ctap1::Request<'_>, generic: bool) -> ctap1::Result<ctap1::Response> {
    if generic {
        <Mock as Rpc<ctap1::Error, ctap1::Request<'_>, ctap1::Response>>::call(m, req)
    } else {
        ctap1::Authenticator::call_ctap1(m, req)
    }
}

#[kani::proof]
#[kani::unwind(14)]
fn c10_ctap1() {
    let generic: bool = kani::any();
    let ch: [u8; 32] = kani::any();
    let app: [u8; 32] = kani::any();
    let kh: [u8; 4] = kani::any();
    // Version: cannot fail, calls no handler
    let mut m = Mock::any();
    let r = call1(&mut m, &ctap1::Request::Version, generic);
    assert!(m.none_called(), "Version calls no handler");
    assert!(matches!(r, Ok(ctap1::Response::Version(v)) if v == *b"U2F_V2"), "Version cannot fail");
    // Register
    let req = ctap1::Request::Register(ctap1::register::Request { challenge: &ch, app_id: &app });
    let inner = match &req {
        ctap1::Request::Register(i) => i as *const _ as usize,
        _ => 0,
    };
    let mut m = Mock::any();
    let r = call1(&mut m, &req, generic);
    assert!(m.exactly(H_REGISTER) && m.saw == inner, "exactly register, once, with the request's parameters");
    match &r {
        Err(e) => assert!(m.fail && *e == m.err1, "handler error unchanged"),
        Ok(ctap1::Response::Register(x)) => assert!(!m.fail && x.header_byte == m.marker as u8),
        Ok(_) => assert!(false, "wrong response variant"),
    }
    // Authenticate
    let req = ctap1::Request::Authenticate(ctap1::authenticate::Request {
        control_byte: ctap1::ControlByte::EnforceUserPresenceAndSign,
        challenge: &ch,
        app_id: &app,
        key_handle: &kh,
    });
    let inner = match &req {
        ctap1::Request::Authenticate(i) => i as *const _ as usize,
        _ => 0,
    };
    let mut m = Mock::any();
    let r = call1(&mut m, &req, generic);
    assert!(m.exactly(H_AUTH) && m.saw == inner, "exactly authenticate, once, with the request's parameters");
    match &r {
        Err(e) => assert!(m.fail && *e == m.err1, "handler error unchanged"),
        Ok(ctap1::Response::Authenticate(x)) => assert!(!m.fail && x.count == m.marker),
        Ok(_) => assert!(false, "wrong response variant"),
    }
    kani::cover!(m.fail, "error path");
    kani::cover!(!m.fail && generic, "success path, generic entry point");
}

#[cfg(feature = "replay")]
include!("gen/replay.rs");
