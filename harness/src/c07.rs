//! C07 — authenticator data is laid out byte-for-byte as WebAuthn specifies.
//! Oracle: WebAuthn L2 §6.1 (authenticator data) and §6.5.1 (attested credential data):
//!   rpIdHash(32) || flags(1) || signCount(4, BE) || [aaguid || credIdLen(2, BE) || credId ||
//!   credentialPublicKey] || [CBOR extension map]
use crate::util::*;
use ctap_types::ctap2::get_assertion::{ExtensionsOutput, NoAttestedCredentialData};
use ctap_types::ctap2::make_credential::{AttestedCredentialData, Extensions};
use ctap_types::ctap2::{get_assertion, make_credential, AuthenticatorDataFlags, Error};
use ctap_types::Bytes;

const CAP: usize = 676;

/// flag bit positions (WebAuthn §6.1): UP 0x01, UV 0x04, AT 0x40, ED 0x80
#[kani::proof]
fn c07_flag_bits() {
    assert!(AuthenticatorDataFlags::USER_PRESENCE.bits() == 0x01);
    assert!(AuthenticatorDataFlags::USER_VERIFIED.bits() == 0x04);
    assert!(AuthenticatorDataFlags::ATTESTED_CREDENTIAL_DATA.bits() == 0x40);
    assert!(AuthenticatorDataFlags::EXTENSION_DATA.bits() == 0x80);
    let b: u8 = kani::any();
    let f = AuthenticatorDataFlags::from_bits_truncate(b);
    assert!(f.bits() == b & 0xC5, "exactly the four specified flag bits exist");
    kani::cover!(f.bits() == 0xC5, "all four flags reachable");
}

fn check_header(out: &[u8], hash: &[u8; 32], flags: u8, count: u32) {
    assert!(out.len() >= 37, "header is 37 bytes");
    assert!(eq(&out[0..32], hash), "rpIdHash first");
    assert!(out[32] == flags, "flags byte");
    assert!(out[33] == (count >> 24) as u8 && out[34] == (count >> 16) as u8 && out[35] == (count >> 8) as u8 && out[36] == count as u8,
        "signCount is 4 bytes big-endian");
}

/// MakeCredential flavour, attested credential data with aaguid A, credential id ID and key
/// KEY bytes (contents symbolic), no extensions
fn mc_instance<const A: usize, const ID: usize, const KEY: usize, const A1: usize, const ID1: usize, const KEY1: usize>() {
    let hash: [u8; 32] = kani::any();
    let fb: u8 = kani::any();
    let flags = AuthenticatorDataFlags::from_bits_truncate(fb);
    let count: u32 = kani::any();
    // zero-sized symbolic arrays make CBMC's pointer reasoning pathologically slow (measured:
    // 25 min for A = 0): allocate one spare byte and slice with a concrete length instead
    let aaguid_buf: [u8; A1] = kani::any();
    let id_buf: [u8; ID1] = kani::any();
    let key_buf: [u8; KEY1] = kani::any();
    let (aaguid, id, key) = (&aaguid_buf[..A], &id_buf[..ID], &key_buf[..KEY]);
    let ad = make_credential::AuthenticatorData {
        rp_id_hash: &hash,
        flags,
        sign_count: count,
        attested_credential_data: Some(AttestedCredentialData { aaguid, credential_id: id, credential_public_key: key }),
        extensions: None,
    };
    let r = ad.serialize();
    let total = 37 + A + 2 + ID + KEY;
    if total <= CAP && ID <= 65535 {
        match r {
            Ok(out) => {
                assert!(out.len() == total, "length = sum of the parts");
                check_header(&out, &hash, fb & 0xC5, count);
                assert!(eq(&out[37..37 + A], aaguid), "aaguid");
                assert!(out[37 + A] == (ID >> 8) as u8 && out[38 + A] == (ID & 0xff) as u8, "credentialIdLength 2 bytes big-endian");
                assert!(eq(&out[39 + A..39 + A + ID], id), "credential id");
                assert!(eq(&out[39 + A + ID..], key), "credential public key");
            }
            Err(_) => assert!(false, "authenticator data within capacity must serialize"),
        }
    } else {
        assert!(matches!(r, Err(Error::Other)), "over capacity / id > 65535 => Err(Other), nothing returned");
    }
    kani::cover!(true, "instance reached its verdict");
}

macro_rules! mc {
    ($name:ident, $a:expr, $id:expr, $key:expr, $unwind:expr) => {
        #[kani::proof]
        #[kani::unwind($unwind)]
        fn $name() {
            mc_instance::<{ $a }, { $id }, { $key }, { $a + 1 }, { $id + 1 }, { $key + 1 }>();
        }
    };
}
// capacity frontier for a 77-byte key: 37+16+2+ID+77 <= 676  <=>  ID <= 544
mc!(c07_mc_id0, 16, 0, 77, 80);
mc!(c07_mc_id1, 16, 1, 77, 80);
mc!(c07_mc_id32, 16, 32, 77, 80);
mc!(c07_mc_id255, 16, 255, 77, 260);
mc!(c07_mc_id256, 16, 256, 77, 260);
mc!(c07_mc_id543, 16, 543, 77, 560);
mc!(c07_mc_id544, 16, 544, 77, 560);
mc!(c07_mc_id545, 16, 545, 77, 560);
mc!(c07_mc_id700, 16, 700, 77, 80);
// no key: 37+16+2+ID <= 676 <=> ID <= 621
mc!(c07_mc_key0_id621, 16, 621, 0, 640);
mc!(c07_mc_key0_id622, 16, 622, 0, 640);
// 300-byte key: ID <= 321
mc!(c07_mc_key300_id321, 16, 321, 300, 340);
mc!(c07_mc_key300_id322, 16, 322, 300, 340);
// aaguid lengths 0 and 17 (the type does not fix 16)
mc!(c07_mc_aaguid0, 0, 16, 77, 80);
mc!(c07_mc_aaguid17, 17, 16, 77, 80);
// id beyond the 16-bit length field (contents are never read once a check fails: a
// concrete zero buffer keeps the instance small)
static ZEROS: [u8; 70000] = [0u8; 70000];
fn mc_big_id(n: usize) {
    let hash: [u8; 32] = kani::any();
    let aaguid: [u8; 16] = kani::any();
    let key: [u8; 4] = kani::any();
    let ad = make_credential::AuthenticatorData {
        rp_id_hash: &hash,
        flags: AuthenticatorDataFlags::from_bits_truncate(kani::any()),
        sign_count: kani::any(),
        attested_credential_data: Some(AttestedCredentialData { aaguid: &aaguid, credential_id: &ZEROS[..n], credential_public_key: &key }),
        extensions: None,
    };
    assert!(matches!(ad.serialize(), Err(Error::Other)), "id > capacity / > 65535 => Err(Other), never a panic or truncation");
    kani::cover!(true, "reached");
}
#[kani::proof]
#[kani::unwind(40)]
fn c07_mc_id65535() {
    mc_big_id(65535);
}
#[kani::proof]
#[kani::unwind(40)]
fn c07_mc_id65536() {
    mc_big_id(65536);
}
#[kani::proof]
#[kani::unwind(40)]
fn c07_mc_id70000() {
    mc_big_id(70000);
}

/// credential id of symbolic length 0..=8
#[kani::proof]
#[kani::unwind(80)]
fn c07_mc_symbolic_id_len() {
    let hash: [u8; 32] = kani::any();
    let fb: u8 = kani::any();
    let count: u32 = kani::any();
    let aaguid: [u8; 16] = kani::any();
    let idbuf: [u8; 8] = kani::any();
    let n: usize = kani::any();
    kani::assume(n <= 8);
    let key: [u8; 4] = kani::any();
    let ad = make_credential::AuthenticatorData {
        rp_id_hash: &hash,
        flags: AuthenticatorDataFlags::from_bits_truncate(fb),
        sign_count: count,
        attested_credential_data: Some(AttestedCredentialData { aaguid: &aaguid, credential_id: &idbuf[..n], credential_public_key: &key }),
        extensions: None,
    };
    match ad.serialize() {
        Ok(out) => {
            assert!(out.len() == 37 + 16 + 2 + n + 4);
            check_header(&out, &hash, fb & 0xC5, count);
            assert!(out[53] == 0 && out[54] as usize == n, "credentialIdLength");
            assert!(eq(&out[55..55 + n], &idbuf[..n]), "credential id");
            assert!(eq(&out[55 + n..], &key), "key follows the id immediately");
        }
        Err(_) => assert!(false, "must serialize"),
    }
    kani::cover!(n == 8, "longest id reachable");
}

/// absent attested credential data and absent extensions: exactly the 37-byte header
#[kani::proof]
#[kani::unwind(40)]
fn c07_header_only_both_flavours() {
    let hash: [u8; 32] = kani::any();
    let fb: u8 = kani::any();
    let count: u32 = kani::any();
    let ad = make_credential::AuthenticatorData {
        rp_id_hash: &hash,
        flags: AuthenticatorDataFlags::from_bits_truncate(fb),
        sign_count: count,
        attested_credential_data: None,
        extensions: None,
    };
    match ad.serialize() {
        Ok(out) => {
            assert!(out.len() == 37, "optional parts absent iff not supplied");
            check_header(&out, &hash, fb & 0xC5, count);
        }
        Err(_) => assert!(false),
    }
    let ad = get_assertion::AuthenticatorData {
        rp_id_hash: &hash,
        flags: AuthenticatorDataFlags::from_bits_truncate(fb),
        sign_count: count,
        attested_credential_data: None,
        extensions: None,
    };
    match ad.serialize() {
        Ok(out) => {
            assert!(out.len() == 37);
            check_header(&out, &hash, fb & 0xC5, count);
        }
        Err(_) => assert!(false),
    }
    // GetAssertion flavour with the (empty) NoAttestedCredentialData marker
    let ad = get_assertion::AuthenticatorData {
        rp_id_hash: &hash,
        flags: AuthenticatorDataFlags::from_bits_truncate(fb),
        sign_count: count,
        attested_credential_data: Some(NoAttestedCredentialData),
        extensions: None,
    };
    match ad.serialize() {
        Ok(out) => assert!(out.len() == 37),
        Err(_) => assert!(false),
    }
    kani::cover!(true, "reached");
}

/// GetAssertion flavour with the hmac-secret extension output (32 or 64 symbolic bytes):
/// header || {"hmac-secret": bytes}
fn ga_ext_instance<const N: usize>() {
    let hash: [u8; 32] = kani::any();
    let fb: u8 = kani::any();
    let count: u32 = kani::any();
    let secret: [u8; N] = kani::any();
    let mut ext = ExtensionsOutput::default();
    ext.hmac_secret = Some(Bytes::from_slice(&secret).unwrap());
    let ad = get_assertion::AuthenticatorData {
        rp_id_hash: &hash,
        flags: AuthenticatorDataFlags::from_bits_truncate(fb),
        sign_count: count,
        attested_credential_data: None,
        extensions: Some(ext),
    };
    match ad.serialize() {
        Ok(out) => {
            // a1 6b "hmac-secret" 58 N <N bytes>
            assert!(out.len() == 37 + 1 + 12 + 2 + N, "header + CBOR map");
            check_header(&out, &hash, fb & 0xC5, count);
            assert!(out[37] == 0xa1 && out[38] == 0x6b && eq(&out[39..50], b"hmac-secret"), "extension map key");
            assert!(out[50] == 0x58 && out[51] as usize == N && eq(&out[52..], &secret), "extension value");
        }
        Err(_) => assert!(false, "must serialize"),
    }
    kani::cover!(true, "reached");
}
#[kani::proof]
#[kani::unwind(70)]
fn c07_ga_hmac32() {
    ga_ext_instance::<32>();
}
#[kani::proof]
#[kani::unwind(70)]
fn c07_ga_hmac64() {
    ga_ext_instance::<64>();
}

/// GetAssertion flavour, extensions present but empty: header || a0
#[kani::proof]
#[kani::unwind(40)]
fn c07_ga_empty_extensions() {
    let hash: [u8; 32] = kani::any();
    let fb: u8 = kani::any();
    let count: u32 = kani::any();
    let ad = get_assertion::AuthenticatorData {
        rp_id_hash: &hash,
        flags: AuthenticatorDataFlags::from_bits_truncate(fb),
        sign_count: count,
        attested_credential_data: None,
        extensions: Some(ExtensionsOutput::default()),
    };
    match ad.serialize() {
        Ok(out) => {
            assert!(out.len() == 38 && out[37] == 0xa0, "empty extension map");
            check_header(&out, &hash, fb & 0xC5, count);
        }
        Err(_) => assert!(false),
    }
    kani::cover!(true, "reached");
}

/// MakeCredential flavour with attested credential data AND every subset of the extension
/// outputs credProtect / hmac-secret / largeBlobKey (mask enumerated; values symbolic)
fn mc_ext_instance(mask: u8) {
    let hash: [u8; 32] = kani::any();
    let fb: u8 = kani::any();
    let count: u32 = kani::any();
    let aaguid: [u8; 16] = kani::any();
    let id: [u8; 16] = kani::any();
    let key: [u8; 8] = kani::any();
    // credProtect value: symbolic over the whole 2-byte head class when it is the only member;
    // a symbolic integer followed by further members makes the encoder's write position an
    // ite() (measured 8-12 min), so it is the constant 0x19 there
    let cp: u8 = if mask == 1 { kani::any() } else { 0x19 };
    kani::assume(cp >= 24); // 2-byte head class (0..=23 would live in the head byte)
    let hs: bool = kani::any();
    let lbk: bool = kani::any();
    let mut ext = Extensions::default();
    if mask & 1 != 0 {
        ext.cred_protect = Some(cp);
    }
    if mask & 2 != 0 {
        ext.hmac_secret = Some(hs);
    }
    if mask & 4 != 0 {
        ext.large_blob_key = Some(lbk);
    }
    let ad = make_credential::AuthenticatorData {
        rp_id_hash: &hash,
        flags: AuthenticatorDataFlags::from_bits_truncate(fb),
        sign_count: count,
        attested_credential_data: Some(AttestedCredentialData { aaguid: &aaguid, credential_id: &id, credential_public_key: &key }),
        extensions: Some(ext),
    };
    // expected tail, built by hand from the extension identifiers' registry spellings
    let mut exp = [0u8; 64];
    let mut n = 0usize;
    exp[n] = 0xa0 + (mask & 1) + ((mask >> 1) & 1) + ((mask >> 2) & 1);
    n += 1;
    if mask & 1 != 0 {
        exp[n] = 0x6b;
        let k = b"credProtect";
        let mut i = 0;
        while i < 11 {
            exp[n + 1 + i] = k[i];
            i += 1;
        }
        exp[n + 12] = 0x18;
        exp[n + 13] = cp;
        n += 14;
    }
    if mask & 2 != 0 {
        exp[n] = 0x6b;
        let k = b"hmac-secret";
        let mut i = 0;
        while i < 11 {
            exp[n + 1 + i] = k[i];
            i += 1;
        }
        exp[n + 12] = if hs { 0xf5 } else { 0xf4 };
        n += 13;
    }
    if mask & 4 != 0 {
        exp[n] = 0x6c;
        let k = b"largeBlobKey";
        let mut i = 0;
        while i < 12 {
            exp[n + 1 + i] = k[i];
            i += 1;
        }
        exp[n + 13] = if lbk { 0xf5 } else { 0xf4 };
        n += 14;
    }
    match ad.serialize() {
        Ok(out) => {
            let base = 37 + 16 + 2 + 16 + 8;
            assert!(out.len() == base + n, "length = header + attested data + extension map");
            check_header(&out, &hash, fb & 0xC5, count);
            assert!(eq(&out[37..53], &aaguid) && out[53] == 0 && out[54] == 16 && eq(&out[55..71], &id) && eq(&out[71..79], &key),
                "attested credential data");
            assert!(eq(&out[base..], &exp[..n]), "CBOR extension map appended last");
        }
        Err(_) => assert!(false, "must serialize"),
    }
    kani::cover!(true, "reached");
}
macro_rules! mcext {
    ($name:ident, $mask:expr) => {
        #[kani::proof]
        #[kani::unwind(70)]
        fn $name() {
            mc_ext_instance($mask);
        }
    };
}
mcext!(c07_mc_ext_mask0, 0);
mcext!(c07_mc_ext_mask1, 1);
mcext!(c07_mc_ext_mask2, 2);
mcext!(c07_mc_ext_mask3, 3);
mcext!(c07_mc_ext_mask4, 4);
mcext!(c07_mc_ext_mask5, 5);
mcext!(c07_mc_ext_mask6, 6);
mcext!(c07_mc_ext_mask7, 7);

/// extension map pushes the total over the capacity: Err(Other), no partial result
#[kani::proof]
#[kani::unwind(640)]
fn c07_mc_ext_overflow() {
    let hash: [u8; 32] = kani::any();
    let aaguid: [u8; 16] = kani::any();
    let id: [u8; 619] = kani::any(); // 37+16+2+619 = 674: two bytes left, the map needs 14
    let mut ext = Extensions::default();
    ext.hmac_secret = Some(true);
    let ad = make_credential::AuthenticatorData {
        rp_id_hash: &hash,
        flags: AuthenticatorDataFlags::from_bits_truncate(kani::any()),
        sign_count: kani::any(),
        attested_credential_data: Some(AttestedCredentialData { aaguid: &aaguid, credential_id: &id, credential_public_key: &id[..0] }),
        extensions: Some(ext),
    };
    assert!(matches!(ad.serialize(), Err(Error::Other)), "extension map that does not fit => Err(Other)");
    kani::cover!(true, "reached");
}

#[cfg(feature = "replay")]
include!("gen/replay.rs");
