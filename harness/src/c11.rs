//! C11 — the command-byte table is total, exact and invertible.
//! Oracle: CTAP 2.1 §6 command table, written here independently of src/operation.rs.
use ctap_types::ctap2::{Error, Operation, Request, VendorOperation};

/// CTAP 2.1 assigned command codes (authenticatorMakeCredential .. authenticatorConfig) plus
/// the two prototype codes FIDO reassigned out of the vendor range.
fn spec_assigned(b: u8) -> bool {
    matches!(
        b,
        0x01 | 0x02 | 0x04 | 0x06 | 0x07 | 0x08 | 0x09 | 0x0A | 0x0B | 0x0C | 0x0D | 0x40 | 0x41
    )
}
fn spec_vendor(b: u8) -> bool {
    (0x42..=0x7F).contains(&b)
}

/// rank of the operation kind, by exhaustive match (no use of the crate's own conversion)
fn kind(op: Operation) -> u16 {
    match op {
        Operation::MakeCredential => 0x01,
        Operation::GetAssertion => 0x02,
        Operation::GetInfo => 0x04,
        Operation::ClientPin => 0x06,
        Operation::Reset => 0x07,
        Operation::GetNextAssertion => 0x08,
        Operation::BioEnrollment => 0x09,
        Operation::CredentialManagement => 0x0A,
        Operation::Selection => 0x0B,
        Operation::LargeBlobs => 0x0C,
        Operation::Config => 0x0D,
        Operation::PreviewBioEnrollment => 0x40,
        Operation::PreviewCredentialManagement => 0x41,
        Operation::Vendor(v) => 0x100 + u8::from(v) as u16,
    }
}

#[kani::proof]
fn c11_table_total_exact() {
    let b: u8 = kani::any();
    let r = Operation::try_from(b);
    assert!(r.is_ok() == (spec_assigned(b) || spec_vendor(b)), "recognised set");
    if let Ok(op) = r {
        assert!(u8::from(op) == b, "byte -> op -> byte");
        assert!(op.into_u8() == b, "into_u8");
        if spec_assigned(b) {
            assert!(kind(op) == b as u16, "assigned code maps to its own operation");
        } else {
            assert!(kind(op) == 0x100 + b as u16, "vendor code carries its byte");
            assert!(matches!(op, Operation::Vendor(_)));
        }
    }
    kani::cover!(r.is_ok(), "some byte recognised");
    kani::cover!(r.is_err(), "some byte rejected");
}

#[kani::proof]
fn c11_table_injective() {
    let b1: u8 = kani::any();
    let b2: u8 = kani::any();
    kani::assume(b1 != b2);
    if let (Ok(o1), Ok(o2)) = (Operation::try_from(b1), Operation::try_from(b2)) {
        assert!(kind(o1) != kind(o2), "no two bytes share an operation");
        assert!(o1 != o2, "PartialEq agrees");
        assert!(u8::from(o1) != u8::from(o2), "op -> byte injective");
        kani::cover!(true, "two recognised bytes");
    }
}

#[kani::proof]
fn c11_vendor_operation_domain() {
    let b: u8 = kani::any();
    let r = VendorOperation::try_from(b);
    // documented domain of the free-standing type: 0x40..=0x7f
    assert!(r.is_ok() == (0x40..=0x7F).contains(&b));
    if let Ok(v) = r {
        assert!(u8::from(v) == b);
    }
    assert!(VendorOperation::FIRST == 0x40 && VendorOperation::LAST == 0x7F);
}

fn check_dispatch_by_byte(msg: &[u8]) {
    let b = msg[0];
    let r = Request::deserialize(msg);
    match b {
        0x04 => assert!(matches!(r, Ok(Request::GetInfo)), "GetInfo from byte alone"),
        0x07 => assert!(matches!(r, Ok(Request::Reset)), "Reset from byte alone"),
        0x08 => assert!(matches!(r, Ok(Request::GetNextAssertion)), "GetNextAssertion"),
        0x0B => assert!(matches!(r, Ok(Request::Selection)), "Selection"),
        0x42..=0x7F => match r {
            Ok(Request::Vendor(v)) => assert!(u8::from(v) == b, "vendor code preserved"),
            _ => assert!(false, "vendor command must decode from its byte alone"),
        },
        0x01 | 0x02 | 0x06 | 0x0A | 0x0C | 0x41 => {
            // parameter-bearing: decided by the payload (C01/C05); never InvalidCommand
            // for these recognised commands unless ... they are supported, so never.
            match r {
                Err(e) => assert!(e != Error::InvalidCommand, "supported command never InvalidCommand"),
                Ok(_) => {}
            }
        }
        _ => assert!(matches!(r, Err(Error::InvalidCommand)), "unassigned/unsupported => InvalidCommand"),
    }
}

/// every command byte, no payload
#[kani::proof]
#[kani::unwind(4)]
fn c11_deserialize_len1() {
    let b: u8 = kani::any();
    let msg = [b];
    check_dispatch_by_byte(&msg);
}

/// representative command bytes of every class followed by 4 fully symbolic bytes:
/// parameter-less commands decode from the byte alone, unsupported / unassigned bytes are
/// InvalidCommand whatever follows.  (One `Request::deserialize` call costs ~5 s of symbolic
/// execution because of the size of `Result<Request>`, so the 256 bytes are not all looped
/// here: `c11_deserialize_len1` covers every byte with an empty payload, and
/// `c11_table_total_exact` the byte table itself.)
#[kani::proof]
#[kani::unwind(20)]
fn c11_deserialize_trailing4() {
    let p: [u8; 4] = kani::any();
    const REPS: [u8; 16] = [
        0x04, 0x07, 0x08, 0x0B, 0x42, 0x7F, 0x09, 0x0D, 0x40, 0x00, 0x03, 0x05, 0x0E, 0x3F, 0x80, 0xFF,
    ];
    let mut i = 0;
    while i < REPS.len() {
        let msg = [REPS[i], p[0], p[1], p[2], p[3]];
        check_dispatch_by_byte(&msg);
        i += 1;
    }
    kani::cover!(i == 16, "all representatives visited");
}

/// prototype credential management 0x41 decodes exactly like 0x0A
#[kani::proof]
#[kani::unwind(48)]
fn c11_preview_alias() {
    let h: [u8; 32] = kani::any();
    let pa: [u8; 2] = kani::any();
    // small integers live in the CBOR head byte: layout, hence concrete (DESIGN §2 lesson 1)
    let sub: u8 = 6;
    let pp: u8 = 2;
    // {1: sub, 2: {1: h'..32..'}, 3: pp, 4: h'..2..'}
    let body: [u8; 46] = [
        0xa4, 0x01, sub, 0x02, 0xa1, 0x01, 0x58, 0x20,
        h[0], h[1], h[2], h[3], h[4], h[5], h[6], h[7], h[8], h[9], h[10], h[11], h[12], h[13], h[14], h[15],
        h[16], h[17], h[18], h[19], h[20], h[21], h[22], h[23], h[24], h[25], h[26], h[27], h[28], h[29], h[30], h[31],
        0x03, pp, 0x04, 0x42, pa[0], pa[1],
    ];
    let mut m1 = [0u8; 47];
    let mut m2 = [0u8; 47];
    m1[0] = 0x0A;
    m2[0] = 0x41;
    let mut i = 0;
    while i < 46 {
        m1[i + 1] = body[i];
        m2[i + 1] = body[i];
        i += 1;
    }
    let r1 = Request::deserialize(&m1);
    let r2 = Request::deserialize(&m2);
    match (r1, r2) {
        (Ok(Request::CredentialManagement(a)), Ok(Request::CredentialManagement(b))) => {
            assert!(a.sub_command as u8 == b.sub_command as u8 && a.sub_command as u8 == sub);
            assert!(a.pin_protocol == b.pin_protocol && a.pin_protocol == Some(pp));
            let (pa1, pa2) = (a.pin_auth.unwrap(), b.pin_auth.unwrap());
            assert!(pa1.len() == 2 && pa2.len() == 2 && pa1[0] == pa2[0] && pa1[1] == pa2[1] && pa1[0] == pa[0]);
            let (p1, p2) = (a.sub_command_params.unwrap(), b.sub_command_params.unwrap());
            let (h1, h2) = (p1.rp_id_hash.unwrap(), p2.rp_id_hash.unwrap());
            let mut k = 0;
            while k < 32 {
                assert!(h1[k] == h2[k] && h1[k] == h[k]);
                k += 1;
            }
            assert!(p1.credential_id.is_none() && p2.credential_id.is_none() && p1.user.is_none() && p2.user.is_none());
            kani::cover!(true, "both decode");
        }
        _ => assert!(false, "0x41 and 0x0A must both decode this template"),
    };
}

#[kani::proof]
fn c11_deserialize_empty() {
    let r = Request::deserialize(&[]);
    assert!(matches!(r, Err(Error::InvalidCbor)));
}

#[cfg(feature = "replay")]
include!("gen/replay.rs");
