//! Small helpers shared by harnesses (explicit short loops: no derived PartialEq / memcmp on
//! big types, DESIGN.md §2 lesson 5).

/// content equality of two byte slices
pub fn eq(a: &[u8], b: &[u8]) -> bool {
    if a.len() != b.len() {
        return false;
    }
    let mut i = 0;
    while i < a.len() {
        if a[i] != b[i] {
            return false;
        }
        i += 1;
    }
    true
}

pub fn all_ascii(a: &[u8]) -> bool {
    let mut i = 0;
    while i < a.len() {
        if a[i] >= 0x80 {
            return false;
        }
        i += 1;
    }
    true
}

/// status byte of a decode result (0 = accepted)
pub fn status<T>(r: &Result<T, ctap_types::ctap2::Error>) -> u8 {
    match r {
        Ok(_) => 0,
        Err(e) => *e as u8,
    }
}

pub fn cbor_status<T>(r: &Result<T, ctap_types::serde::Error>) -> u8 {
    // same mapping the transport applies (CTAP 2.1 §8.2): missing member 0x14, else 0x12
    match r {
        Ok(_) => 0,
        Err(ctap_types::serde::Error::SerdeMissingField) => 0x14,
        Err(_) => 0x12,
    }
}
