//! C08 — CTAP1/U2F APDU parsing is total and follows the U2F raw message format.
//! Oracle: the decision table of FIDO U2F Raw Message Formats v1.2 §3–§5, written here.
use crate::util::*;
use ctap_types::ctap1::{ControlByte, Error, Request};
use iso7816::command::CommandView;
use iso7816::Command;

#[derive(PartialEq, Eq, Clone, Copy)]
enum Want {
    ClassNotSupported,
    Version,
    Register,
    Authenticate(u8),
    IncorrectData,
    InsNotSupported,
}

/// the specification's decision table (class check first)
fn oracle(cla: u8, ins: u8, p1: u8, data: &[u8]) -> Want {
    if cla != 0 {
        return Want::ClassNotSupported;
    }
    match ins {
        3 => Want::Version,
        1 => {
            if data.len() == 64 {
                Want::Register
            } else {
                Want::IncorrectData
            }
        }
        2 => {
            if !(p1 == 0x03 || p1 == 0x07 || p1 == 0x08) {
                return Want::IncorrectData;
            }
            if data.len() >= 65 && data.len() == 65 + data[64] as usize {
                Want::Authenticate(p1)
            } else {
                Want::IncorrectData
            }
        }
        _ => Want::InsNotSupported,
    }
}

fn check(view: CommandView<'_>) -> Want {
    let cla = view.class().into_inner();
    let ins: u8 = view.instruction().into();
    let p1 = view.p1;
    let data = view.data();
    let want = oracle(cla, ins, p1, data);
    let got = Request::try_from(view);
    match got {
        Err(e) => match want {
            Want::ClassNotSupported => assert!(e == Error::ClassNotSupported, "class != 0 => ClassNotSupported (takes precedence)"),
            Want::IncorrectData => assert!(e == Error::IncorrectDataParameter, "bad length / P1 => IncorrectDataParameter"),
            Want::InsNotSupported => assert!(e == Error::InstructionNotSupportedOrInvalid, "other instruction => InstructionNotSupportedOrInvalid"),
            _ => assert!(false, "a valid U2F command was rejected"),
        },
        Ok(Request::Version) => assert!(want == Want::Version, "Version returned for a non-version APDU"),
        Ok(Request::Register(r)) => {
            assert!(want == Want::Register, "Register returned for a non-register APDU");
            assert!(eq(&r.challenge[..], &data[0..32]), "register challenge = data[0..32]");
            assert!(eq(&r.app_id[..], &data[32..64]), "register application = data[32..64]");
        }
        Ok(Request::Authenticate(a)) => {
            assert!(want == Want::Authenticate(p1), "Authenticate returned for a non-authenticate APDU");
            assert!(a.control_byte as u8 == p1, "control byte = P1");
            assert!(eq(&a.challenge[..], &data[0..32]), "authenticate challenge = data[0..32]");
            assert!(eq(&a.app_id[..], &data[32..64]), "authenticate application = data[32..64]");
            assert!(eq(a.key_handle, &data[65..]), "key handle = data[65..]");
            assert!(a.key_handle.len() == data[64] as usize, "key handle length = data[64]");
        }
    }
    want
}

/// every APDU of at most 76 bytes: complete header space, short and extended framing,
/// with/without Le, all data lengths 0..=69 (register 63/64/65 frontier; authenticate with
/// key handles of 0..=4 bytes and every disagreement between data[64] and the actual length)
#[kani::proof]
#[kani::unwind(80)]
fn c08_all_apdus_up_to_76() {
    let apdu: [u8; 76] = kani::any();
    let n: usize = kani::any();
    kani::assume(n <= 76);
    if let Ok(view) = CommandView::try_from(&apdu[..n]) {
        let want = check(view);
        kani::cover!(want == Want::Register, "register reachable");
        kani::cover!(matches!(want, Want::Authenticate(_)), "authenticate reachable");
        kani::cover!(want == Want::Version, "version reachable");
        kani::cover!(want == Want::ClassNotSupported, "class error reachable");
        kani::cover!(want == Want::IncorrectData, "length error reachable");
        kani::cover!(want == Want::InsNotSupported, "instruction error reachable");
    }
}

/// extended-length authenticate/register templates with long key handles: header, P1, Lc
/// encoding concrete-extended, all data bytes (including the key-handle length byte) symbolic
fn extended_template<const L: usize, const T: usize>(with_le: bool) {
    let hdr: [u8; 4] = kani::any();
    let data: [u8; L] = kani::any();
    let le: [u8; 2] = kani::any();
    let mut apdu = [0u8; T];
    apdu[0] = hdr[0];
    apdu[1] = hdr[1];
    apdu[2] = hdr[2];
    apdu[3] = hdr[3];
    apdu[4] = 0;
    apdu[5] = (L >> 8) as u8;
    apdu[6] = (L & 0xff) as u8;
    let mut i = 0;
    while i < L {
        apdu[7 + i] = data[i];
        i += 1;
    }
    let total = if with_le {
        apdu[7 + L] = le[0];
        apdu[8 + L] = le[1];
        9 + L
    } else {
        7 + L
    };
    match CommandView::try_from(&apdu[..total]) {
        Ok(view) => {
            assert!(view.data().len() == L, "framing delivers the whole data field");
            let want = check(view);
            kani::cover!(want == Want::ClassNotSupported, "template parsed; class error reachable");
            kani::cover!(want != Want::ClassNotSupported, "template parsed; class 0 reachable");
        }
        Err(_) => {
            // iso7816 rejects reserved class bytes before ctap-types sees the APDU
        }
    }
}

macro_rules! ext_instance {
    ($name:ident, $l:expr, $le:expr) => {
        #[kani::proof]
        #[kani::unwind(330)]
        fn $name() {
            extended_template::<{ $l }, { $l + 9 }>($le);
        }
    };
}
// register boundary in extended form
ext_instance!(c08_ext_len63, 63, false);
ext_instance!(c08_ext_len64, 64, true);
ext_instance!(c08_ext_len65, 65, false);
ext_instance!(c08_ext_len66, 66, true);
// key handle 254 / 255 boundaries: 65+254-1 .. 65+255+1
ext_instance!(c08_ext_len318, 318, false);
ext_instance!(c08_ext_len319, 319, true);
ext_instance!(c08_ext_len320, 320, false);
ext_instance!(c08_ext_len321, 321, true);

/// owned `Command<S>` path: `TryFrom<&Command<S>>` agrees with the view path
#[kani::proof]
#[kani::unwind(80)]
fn c08_owned_command_64() {
    let apdu: [u8; 74] = kani::any();
    let n: usize = kani::any();
    kani::assume(n <= 74);
    if let Ok(cmd) = Command::<64>::try_from(&apdu[..n]) {
        let view = cmd.as_view();
        let cla = view.class().into_inner();
        let ins: u8 = view.instruction().into();
        let want = oracle(cla, ins, view.p1, view.data());
        let got = Request::try_from(&cmd);
        match got {
            Err(e) => assert!(matches!(want, Want::ClassNotSupported | Want::IncorrectData | Want::InsNotSupported)),
            Ok(Request::Version) => assert!(want == Want::Version),
            Ok(Request::Register(_)) => assert!(want == Want::Register),
            Ok(Request::Authenticate(a)) => assert!(want == Want::Authenticate(view.p1) && a.key_handle.len() + 65 == view.data().len()),
        }
    }
}

#[cfg(feature = "replay")]
include!("gen/replay.rs");
