//! Reference UTF-8 validator, written from Unicode 15 Table 3-7 (well-formed UTF-8 byte
//! sequences), used (a) as the oracle for "is this text well-formed" and (b) as the Kani
//! stub for `core::str::from_utf8` (std's validator reads a word at a time behind
//! `align_offset`, which CBMC cannot resolve; see DESIGN.md §2 lesson 3).
//!
//! The stub is part of the trusted base and is discharged by `selfcheck::utf8_stub_equiv_*`:
//! stub == real `from_utf8` (Ok/Err, `valid_up_to`, `error_len`) for all byte strings of
//! length <= 6.

/// Result of validating: Ok(()) or Err((valid_up_to, error_len)) where error_len None means
/// "unexpected end of input".
pub fn validate(b: &[u8]) -> Result<(), (usize, Option<u8>)> {
    // A byte-at-a-time automaton whose loop index advances by exactly one per iteration, so
    // that CBMC unrolls it `b.len()` times even for symbolic contents (an index that jumps by
    // the symbolic character width would be unrolled up to the unwind bound).
    let n = b.len();
    let mut need: u8 = 0; // continuation bytes still expected
    let mut seen: u8 = 0; // bytes of the current sequence consumed so far (incl. lead)
    let mut lo: u8 = 0x80; // admissible range of the next continuation byte (Table 3-7)
    let mut hi: u8 = 0xBF;
    let mut start: usize = 0; // index of the current sequence's lead byte
    let mut i = 0usize;
    while i < n {
        let c = b[i];
        if need == 0 {
            start = i;
            if c >= 0x80 {
                seen = 1;
                match c {
                    0xC2..=0xDF => { need = 1; lo = 0x80; hi = 0xBF; }
                    0xE0 => { need = 2; lo = 0xA0; hi = 0xBF; }
                    0xE1..=0xEC => { need = 2; lo = 0x80; hi = 0xBF; }
                    0xED => { need = 2; lo = 0x80; hi = 0x9F; }
                    0xEE..=0xEF => { need = 2; lo = 0x80; hi = 0xBF; }
                    0xF0 => { need = 3; lo = 0x90; hi = 0xBF; }
                    0xF1..=0xF3 => { need = 3; lo = 0x80; hi = 0xBF; }
                    0xF4 => { need = 3; lo = 0x80; hi = 0x8F; }
                    _ => return Err((i, Some(1))),
                }
            }
        } else {
            if c < lo || c > hi {
                return Err((start, Some(seen)));
            }
            need -= 1;
            seen += 1;
            lo = 0x80;
            hi = 0xBF;
        }
        i += 1;
    }
    if need != 0 {
        return Err((start, None));
    }
    Ok(())
}

pub fn is_valid(b: &[u8]) -> bool {
    validate(b).is_ok()
}

/// "k is a character boundary of the well-formed text b" (independent of the crate's copy).
pub fn is_boundary(b: &[u8], k: usize) -> bool {
    k == 0 || k >= b.len() || (b[k] & 0xC0) != 0x80
}

/// Longest prefix length <= limit that ends on a character boundary (b must be well-formed).
pub fn floor_boundary(b: &[u8], limit: usize) -> usize {
    if b.len() <= limit {
        return b.len();
    }
    let mut k = limit;
    while k > 0 && (b[k] & 0xC0) == 0x80 {
        k -= 1;
    }
    k
}

#[repr(C)]
struct Utf8ErrorLayout {
    valid_up_to: usize,
    error_len: Option<u8>,
}

/// Kani stub for `core::str::from_utf8`.
pub fn from_utf8_ref(v: &[u8]) -> Result<&str, core::str::Utf8Error> {
    match validate(v) {
        // SAFETY: validated just above
        Ok(()) => Ok(unsafe { core::str::from_utf8_unchecked(v) }),
        Err((valid_up_to, error_len)) => {
            // `Utf8Error { valid_up_to: usize, error_len: Option<u8> }` has no public
            // constructor; its layout is checked by selfcheck::utf8_error_layout.
            let raw = Utf8ErrorLayout { valid_up_to, error_len };
            Err(unsafe { core::mem::transmute::<Utf8ErrorLayout, core::str::Utf8Error>(raw) })
        }
    }
}

/// Kani stub for `core::str::from_utf8` for harnesses whose inputs are *well-formed by
/// assumption* (properties about well-formed messages): instead of branching on validity it
/// assumes it, so the returned `&str` keeps the constant pointer/length of its argument
/// (a `Result` with a symbolic discriminant loses that at the join and every loop over the
/// text is then unrolled to the unwind bound).  Restricts the harness to valid UTF-8 inputs.
pub fn from_utf8_assume_valid(v: &[u8]) -> Result<&str, core::str::Utf8Error> {
    kani::assume(is_valid(v));
    Ok(unsafe { core::str::from_utf8_unchecked(v) })
}
