//! Reference UTF-8 validator, written from Unicode 15 Table 3-7 (well-formed UTF-8 byte
//! sequences), used (a) as the oracle for "is this text well-formed" and (b) as the Kani
//! stub for `core::str::from_utf8` (std's validator reads a word at a time behind
//! `align_offset`, which CBMC cannot resolve; see DESIGN.md §2 lesson 3).
//!
//! The stub is part of the trusted base and is discharged by `selfcheck::utf8_stub_equiv_*`:
//! stub == real `from_utf8` (Ok/Err, `valid_up_to`, `error_len`) for all byte strings of
//! length <= 6.

/// Result of validating: Ok(()) or Err((valid_up_to, error_len)) where error_len None means
/// "unexpected end of input".
pub fn validate(b: &[u8]) -> Result<(), (usize, Option<u8>)> {
    let n = b.len();
    let mut i = 0usize;
    while i < n {
        let c = b[i];
        if c < 0x80 {
            i += 1;
            continue;
        }
        // (width, lower/upper bound of the second byte) per Table 3-7
        let (w, lo, hi): (usize, u8, u8) = match c {
            0xC2..=0xDF => (2, 0x80, 0xBF),
            0xE0 => (3, 0xA0, 0xBF),
            0xE1..=0xEC => (3, 0x80, 0xBF),
            0xED => (3, 0x80, 0x9F),
            0xEE..=0xEF => (3, 0x80, 0xBF),
            0xF0 => (4, 0x90, 0xBF),
            0xF1..=0xF3 => (4, 0x80, 0xBF),
            0xF4 => (4, 0x80, 0x8F),
            _ => return Err((i, Some(1))),
        };
        if i + 1 >= n {
            return Err((i, None));
        }
        let b1 = b[i + 1];
        if b1 < lo || b1 > hi {
            return Err((i, Some(1)));
        }
        if w >= 3 {
            if i + 2 >= n {
                return Err((i, None));
            }
            let b2 = b[i + 2];
            if b2 < 0x80 || b2 > 0xBF {
                return Err((i, Some(2)));
            }
        }
        if w == 4 {
            if i + 3 >= n {
                return Err((i, None));
            }
            let b3 = b[i + 3];
            if b3 < 0x80 || b3 > 0xBF {
                return Err((i, Some(3)));
            }
        }
        i += w;
    }
    Ok(())
}

pub fn is_valid(b: &[u8]) -> bool {
    validate(b).is_ok()
}

/// "k is a character boundary of the well-formed text b" (independent of the crate's copy).
pub fn is_boundary(b: &[u8], k: usize) -> bool {
    k == 0 || k >= b.len() || (b[k] & 0xC0) != 0x80
}

/// Longest prefix length <= limit that ends on a character boundary (b must be well-formed).
pub fn floor_boundary(b: &[u8], limit: usize) -> usize {
    if b.len() <= limit {
        return b.len();
    }
    let mut k = limit;
    while k > 0 && (b[k] & 0xC0) == 0x80 {
        k -= 1;
    }
    k
}

#[repr(C)]
struct Utf8ErrorLayout {
    valid_up_to: usize,
    error_len: Option<u8>,
}

/// Kani stub for `core::str::from_utf8`.
pub fn from_utf8_ref(v: &[u8]) -> Result<&str, core::str::Utf8Error> {
    match validate(v) {
        // SAFETY: validated just above
        Ok(()) => Ok(unsafe { core::str::from_utf8_unchecked(v) }),
        Err((valid_up_to, error_len)) => {
            // `Utf8Error { valid_up_to: usize, error_len: Option<u8> }` has no public
            // constructor; its layout is checked by selfcheck::utf8_error_layout.
            let raw = Utf8ErrorLayout { valid_up_to, error_len };
            Err(unsafe { core::mem::transmute::<Utf8ErrorLayout, core::str::Utf8Error>(raw) })
        }
    }
}
