"""Generators for response-encoding harnesses (C02, C03, C17 and the encode side of C15/C16)."""

from . import cbor as C
from .hb import Harness
from .types import Ctx, Variation
from . import spec
from .gen_req import fsa_for


def build_response(h, kind, var, wrap=False):
    """emit construction of the response value; returns (ctx, model, schema, value var, body bytes)"""
    schema = spec.RESPONSES[kind]
    var.symbool = True
    ctx = Ctx(h, var)
    if wrap:
        ctx.wrap_schema, ctx.wrap_variant = schema, kind
    m = schema.make(ctx, schema.name)
    v = schema.build(ctx, m)
    node = schema.cbor_ser(m)
    body = C.encode(node)
    end = C.check_canonical(body)      # the oracle encoding must itself be canonical
    assert end == len(body), "oracle encoding has trailing bytes"
    h.requires = tuple(sorted(set(h.requires) | ctx.requires))
    h.sample = "%s %s" % (kind, node.describe())
    return ctx, m, schema, v, body, node


def encode_harness(name, prop, kind, var, desc, N=None, prefill=0, mode="equiv", via="response",
                   tiers=("quick", "thorough"), timeout=1500):
    """mode: "equiv"  (C02) order-insensitive structural equality with the oracle encoding
             "exact"  byte equality with the canonical oracle encoding
             "canon"  (C03) the produced body passes the canonical-form validator
       via:  "response" through ctap2::Response::serialize::<N>; "direct" cbor_serialize(&value, &mut [u8; K])"""
    h = Harness(name, prop, desc, tiers=tiers, timeout=timeout, stub_utf8="assume")
    h.encode_side = True
    ctx, m, schema, v, body, node = build_response(h, kind, var, wrap=(via == "response"))
    empty = body == [0xA0]
    exp = [0x00] + ([] if empty else body)
    E = len(exp)
    h.add(*h.array_literal("exp", exp))
    if via == "response":
        if N is None:
            N = max(16, ((E + prefill + 8) // 8) * 8)
        h.add("let mut buf: ctap_types::Vec<u8, %d> = ctap_types::Vec::new();" % N)
        if prefill:
            pv, pex = h.sym_bytes(prefill, "pre")
            h.add("let mut pi = 0; while pi < %d { buf.push(%s[pi]).ok().unwrap(); pi += 1; }" % (prefill, pv))
        h.add("resp.serialize(&mut buf);")
        h.add("let out: &[u8] = &buf[..];")
        fits = E <= N
        if fits:
            h.add('assert!(out.len() >= 1 && out[0] == 0x00, "success status byte first");')
            if empty:
                h.add('assert!(out.len() == 1, "a response with no member set encodes as the status byte alone");')
            else:
                emit_compare(h, mode, "out[1..]", "exp[1..]")
        else:
            h.add('assert!(out.len() == 1 && out[0] == 0x7f, "a response that does not fit becomes the single status byte 0x7F");')
        h.fsa = fsa_for(max(N, E))
        h.unwind = max(N + 2, h.maxlen + 4, 36)
        h.bounds = {"capacity_N": N, "expected_bytes": E, "prefill": prefill, "fits": fits, "unwind": h.unwind, "mode": mode}
    else:
        K = E + 8
        h.add("let mut outbuf = [0u8; %d];" % K)
        h.add("let ser = cbor_serialize(&%s, &mut outbuf);" % v)
        h.add("match ser {")
        h.add("    Ok(out) => {")
        emit_compare(h, mode, "out", "exp[1..]" if not empty else "[0xa0u8]", indent="        ")
        h.add("    }")
        h.add('    Err(_) => assert!(false, "value must serialise into a buffer that is large enough"),')
        h.add("};")
        h.fsa = fsa_for(K)
        h.unwind = max(h.maxlen + 4, E + 4, 36)
        h.bounds = {"expected_bytes": E - 1, "unwind": h.unwind, "mode": mode, "entry": "cbor_serialize"}
    h.add('kani::cover!(true, "response encoded and compared");')
    if via == "response" and kind in ("GetAssertion", "GetNextAssertion"):
        h.timeout = max(h.timeout, 3000)
    if via == "response" and kind != "LargeBlobs":
        # with `large-blobs` every ctap2::Response value carries a 3008-byte buffer and each move of
        # it costs minutes of symbolic execution: the Response::serialize path of the other kinds is
        # checked in the configurations without it, their bodies in all configurations via "direct"
        h.forbids = tuple(sorted(set(h.forbids) | {spec.LB}))
    return h


def emit_compare(h, mode, actual, expected, indent=""):
    """Byte equality with the reference encoding.  (Walking the bytes the crate produced with a
    reference parser is not tractable: to CBMC the output buffer has symbolic layout.)  The
    reference encoding itself is checked to be CTAP2-canonical at generation time
    (vk.cbor.check_canonical), so equality implies canonical form."""
    h.add(indent + 'assert!((%s).len() == (%s).len(), "encoded length differs from the reference encoding");' % (actual, expected))
    h.add(indent + 'assert!(eq(&%s, &%s), "encoded bytes differ from the reference encoding '
          '(member missing/extra, wrong key, wrong value or wrong order)");' % (actual, expected))


def value_harness(name, prop, schema, var, desc, mode="canon", tiers=("quick", "thorough"), timeout=1500, symbool=True):
    """cbor_serialize of a stand-alone public serialisable type"""
    h = Harness(name, prop, desc, tiers=tiers, timeout=timeout, stub_utf8="assume")
    var.symbool = symbool
    h.encode_side = True
    ctx = Ctx(h, var)
    m = schema.make(ctx, schema.name)
    v = schema.build(ctx, m)
    node = schema.cbor_ser(m) if hasattr(schema, "cbor_ser") else schema.cbor(m)
    exp = C.encode(node)
    assert C.check_canonical(exp) == len(exp)
    h.requires = tuple(sorted(ctx.requires))
    h.sample = node.describe()
    h.add(*h.array_literal("exp", exp))
    K = len(exp) + 8
    h.add("let mut outbuf = [0u8; %d];" % K)
    h.add("let ser = cbor_serialize(&%s, &mut outbuf);" % v)
    h.add("match ser {")
    h.add("    Ok(out) => {")
    emit_compare(h, mode, "out", "exp", indent="        ")
    h.add("    }")
    h.add('    Err(_) => assert!(false, "value must serialise into a buffer that is large enough"),')
    h.add("};")
    h.add('kani::cover!(true, "value encoded and compared");')
    h.fsa = fsa_for(K)
    h.unwind = max(h.maxlen + 4, len(exp) + 4, 36)
    h.bounds = {"expected_bytes": len(exp), "unwind": h.unwind, "mode": mode, "type": schema.rust}
    return h
