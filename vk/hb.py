"""Harness builder: collects symbolic declarations, assumptions and body statements of one
generated `#[kani::proof]` function and renders it as Rust source."""

import json


class Harness:
    def __init__(self, name, prop, desc, cfg=(), tiers=("quick", "thorough"), unwind=None,
                 fsa=None, timeout=900, expect="pass", stub_utf8="assume", unwindset=None, bounds=None,
                 requires=(), forbids=()):
        self.name = name            # function name (module prefix added by the runner)
        self.prop = prop
        self.desc = desc
        self.cfg = tuple(cfg)       # ctap-types features this instance needs ("*" handled by plan)
        self.tiers = tuple(tiers)
        self.unwind = unwind
        self.fsa = fsa              # --max-field-sensitivity-array-size
        self.timeout = timeout
        self.expect = expect        # "pass" or "fail" (vacuity witness twins must FAIL)
        self.stub_utf8 = stub_utf8
        self.unwindset = unwindset
        self.bounds = bounds or {}
        self.requires = tuple(requires)   # cargo features of ctap-types that must be ON
        self.forbids = tuple(forbids)     # ... that must be OFF
        self.decl = []
        self.body = []
        self.nsym_bytes = 0
        self.sample = None
        self._n = 0
        self.maxlen = 0
        self.encode_side = False

    # -- names -------------------------------------------------------------------------
    def fresh(self, p="v"):
        self._n += 1
        return "%s%d" % (p, self._n)

    # -- symbolic inputs ---------------------------------------------------------------
    def sym_bytes(self, n, p="b"):
        """fully symbolic byte array; returns (var, exprs)"""
        v = self.fresh(p)
        self.maxlen = max(self.maxlen, n)
        if n == 0:
            self.decl.append("let %s: [u8; 0] = [];" % v)
            return v, []
        self.decl.append("let %s: [u8; %d] = kani::any();" % (v, n))
        self.nsym_bytes += n
        return v, ["%s[%d]" % (v, i) for i in range(n)]

    def sym_ascii(self, n, p="s"):
        v, ex = self.sym_bytes(n, p)
        if n:
            self.decl.append("kani::assume(crate::util::all_ascii(&%s));" % v)
        return v, ex

    def sym_utf8(self, n, p="s"):
        """symbolic text: any well-formed UTF-8 of exactly n bytes.  With the "assume" stub the
        validity assumption is made by the stub at the point the decoder validates the text; for
        encode-side harnesses (no decoder in front) it is stated here."""
        v, ex = self.sym_bytes(n, p)
        if n and (self.stub_utf8 != "assume" or self.encode_side):
            self.decl.append("kani::assume(crate::utf8::is_valid(&%s));" % v)
        return v, ex

    def sym_text(self, n, mode, p="s"):
        return self.sym_ascii(n, p) if mode == "ascii" else self.sym_utf8(n, p)

    def sym_uint(self, lo, hi, p="n"):
        v = self.fresh(p)
        self.decl.append("let %s: u64 = kani::any();" % v)
        self.decl.append("kani::assume(%s >= %d && %s <= %d);" % (v, lo, v, hi))
        self.nsym_bytes += 8
        return v

    def sym_bool(self, p="f"):
        v = self.fresh(p)
        self.decl.append("let %s: bool = kani::any();" % v)
        self.nsym_bytes += 1
        return v

    # -- statements --------------------------------------------------------------------
    def add(self, *lines):
        self.body.extend(lines)

    def array_literal(self, var, exprs, ty="u8"):
        items = [("0x%02x" % e) if isinstance(e, int) else e for e in exprs]
        out = ["let %s: [%s; %d] = [" % (var, ty, len(items))]
        for i in range(0, len(items), 12):
            out.append("    " + ", ".join(items[i:i + 12]) + ",")
        out.append("];")
        return out

    def render(self):
        attrs = []
        conds = ['feature = "%s"' % f for f in self.requires] + ['not(feature = "%s")' % f for f in self.forbids]
        if conds:
            attrs.append("#[cfg(all(%s))]" % ", ".join(conds))
        attrs.append("#[kani::proof]")
        if self.unwind:
            attrs.append("#[kani::unwind(%d)]" % self.unwind)
        if self.stub_utf8:
            # "assume": inputs well-formed by assumption (constant-preserving); "branch": the
            # reference validator, both outcomes explored (see harness/src/utf8.rs)
            fn = "from_utf8_assume_valid" if self.stub_utf8 == "assume" else "from_utf8_ref"
            attrs.append("#[kani::stub(core::str::from_utf8, crate::utf8::%s)]" % fn)
        src = ["/// %s" % self.desc.replace("\n", " ")] + attrs + ["fn %s() {" % self.name]
        for l in self.decl + self.body:
            src.append("    " + l)
        src.append("}")
        return "\n".join(src)

    def meta(self):
        return {
            "name": self.name, "prop": self.prop, "desc": self.desc, "tiers": list(self.tiers),
            "unwind": self.unwind, "fsa": self.fsa, "timeout": self.timeout, "expect": self.expect,
            "bounds": self.bounds, "requires": list(self.requires), "forbids": list(self.forbids),
            "symbolic_input_bytes": self.nsym_bytes, "sample": self.sample,
            "unwindset": self.unwindset, "stub_utf8": self.stub_utf8,
        }


def write_module(path, harnesses, prelude=""):
    src = ["// GENERATED by /verif/vk — do not edit; regenerated on every run.",
           "#![allow(unused_variables, unused_mut, unused_imports, unused_parens, clippy::all)]",
           "use ctap_types::ctap2::{self, Request, Response, Error};",
           "use ctap_types::serde::{cbor_deserialize, cbor_serialize};",
           "use crate::util::*;",
           prelude, ""]
    for h in harnesses:
        src.append(h.render())
        src.append("")
    src.append('#[cfg(feature = "replay")]\ninclude!("replay.rs");')
    with open(path, "w") as f:
        f.write("\n".join(src) + "\n")
