"""Schema-driven model / encoder / assertion emitter.

A *type descriptor* knows how to
  make(ctx, path)          -> model value (python object tree with symbolic leaves declared in ctx.h)
  cbor(model)              -> reference CBOR node (vk.cbor)
  check(ctx, expr, model)  -> Rust statements asserting that place expression `expr` (a decoded
                              value of the crate's Rust type) equals the model
  build(ctx, model)        -> Rust expression constructing the crate's value from the model
The spec tables themselves (keys, optionality, capacities, spellings) are in vk/spec.py.
"""

from . import cbor as C


class Variation:
    """Which structural point of the input space an instance sits at (layout is enumerated,
    contents are symbolic)."""

    def __init__(self, present=None, default_present="all", intclass=1, lens=None, text="utf8",
                 choose=None, seed=0, symbool=False, boolflip=0, maxlen=None):
        self.present = present or {}          # struct name -> iterable of optional field names
        self.default_present = default_present  # "all" | "none"
        self.intclass = intclass              # 0: small concrete ints, 1/2/4/8: symbolic in class
        self.lens = lens or {}                # path -> length / count
        self.text = text                      # "ascii" | "utf8"
        self.choose = choose or {}            # path -> explicit choice (enum variant, small int ...)
        self.seed = seed
        self.maxlen = maxlen
        self.symbool = symbool                # True only for encode-side harnesses
        self.boolflip = boolflip              # flips the alternating true/false assignment

    def is_present(self, sname, fname):
        if sname in self.present:
            return fname in self.present[sname]
        return self.default_present == "all"

    def length(self, path, default):
        if path in self.lens:
            return self.lens[path]
        return min(default, self.maxlen) if self.maxlen is not None else default

    def choice(self, path, default):
        return self.choose.get(path, default)


class Ctx:
    def __init__(self, h, var):
        self.h = h
        self.var = var
        self.requires = set()
        self.used_paths = []


class Leaf:
    def __init__(self, **kw):
        self.__dict__.update(kw)


def lit(exprs):
    return "[" + ", ".join(("0x%02x" % e) if isinstance(e, int) else e for e in exprs) + "]"


class T:
    name = "?"

    def rust_ty(self):
        raise NotImplementedError(self.name)

    def build(self, ctx, m):
        raise NotImplementedError("build " + self.name)


# --------------------------------------------------------------------------- byte strings
class TBytes(T):
    """kind: ref (&serde_bytes::Bytes) | hl (heapless_bytes::Bytes<cap>) | ba (ByteArray<n>) |
    baref (&ByteArray<n>) | slice (&[u8]); exact: required exact length"""

    def __init__(self, kind, cap=None, dlen=8, exact=None):
        self.kind, self.cap, self.dlen, self.exact = kind, cap, dlen, exact
        self.name = "bytes"

    def rust_ty(self):
        return {"hl": "ctap_types::Bytes<%s>" % self.cap,
                "ba": "serde_bytes::ByteArray<%s>" % self.exact}[self.kind]

    def make(self, ctx, path):
        n = self.exact if self.exact is not None else ctx.var.length(path, self.dlen)
        var, ex = ctx.h.sym_bytes(n)
        return Leaf(var=var, ex=ex, n=n)

    def cbor(self, m):
        return C.Bytes(m.ex)

    def check(self, ctx, e, m):
        return ['assert!(eq(&(%s)[..], &%s[..]), "bytes member differs: %s");' % (e, m.var, e.replace('"', "'"))]

    def build(self, ctx, m):
        if self.kind == "hl":
            return "ctap_types::Bytes::<%s>::from_slice(&%s).unwrap()" % (self.cap, m.var)
        if self.kind == "ba":
            return "serde_bytes::ByteArray::<%s>::new(%s)" % (self.exact, m.var)
        raise NotImplementedError


# --------------------------------------------------------------------------- text strings
class TText(T):
    """kind: ref (&str) | hl (heapless String<cap>); lossy: None | truncate | skip"""

    def __init__(self, kind, cap=None, dlen=6, lossy=None):
        self.kind, self.cap, self.dlen, self.lossy = kind, cap, dlen, lossy
        self.name = "text"

    def rust_ty(self):
        return "ctap_types::String<%s>" % self.cap

    def make(self, ctx, path):
        n = ctx.var.length(path, self.dlen)
        if ctx.var.text == "utf8":
            var, ex = ctx.h.sym_utf8(n)
        else:
            var, ex = ctx.h.sym_ascii(n)
        return Leaf(var=var, ex=ex, n=n)

    def cbor(self, m):
        return C.Text(m.ex)

    def check(self, ctx, e, m):
        if self.lossy == "truncate" and self.cap is not None and m.n > self.cap:
            k = ctx.h.fresh("k")
            return ["let %s = crate::utf8::floor_boundary(&%s, %d);" % (k, m.var, self.cap),
                    'assert!(eq((%s).as_bytes(), &%s[..%s]), "truncated text differs: %s");' % (e, m.var, k, e)]
        return ['assert!(eq((%s).as_bytes(), &%s[..]), "text member differs: %s");' % (e, m.var, e)]

    def build(self, ctx, m):
        return ("ctap_types::String::<%s>::try_from(unsafe { core::str::from_utf8_unchecked(&%s) }).unwrap()"
                % (self.cap, m.var))


# --------------------------------------------------------------------------- integers
TYMAX = {"u8": 0xFF, "u16": 0xFFFF, "u32": 0xFFFFFFFF, "usize": 0xFFFFFFFFFFFFFFFF, "u64": 0xFFFFFFFFFFFFFFFF}


class TUInt(T):
    def __init__(self, ty, small=1):
        self.ty, self.small = ty, small
        self.name = ty

    def rust_ty(self):
        return self.ty

    def make(self, ctx, path):
        cls = ctx.var.choice(path + "#class", ctx.var.intclass)
        if cls:
            lo, hi = C.CLASS_RANGE[cls]
            hi = min(hi, TYMAX[self.ty])
            if lo > hi:  # type too narrow for this class: use the widest class that fits
                cls = max(c for c in (1, 2, 4, 8) if C.CLASS_RANGE[c][0] <= TYMAX[self.ty])
                lo, hi = C.CLASS_RANGE[cls][0], min(C.CLASS_RANGE[cls][1], TYMAX[self.ty])
            var = ctx.h.sym_uint(lo, hi)
            return Leaf(var=var, cls=cls, const=None)
        return Leaf(var=None, cls=0, const=ctx.var.choice(path, self.small))

    def cbor(self, m):
        if m.var:
            return C.SymInt(m.var, m.cls)
        return C.UInt(m.const)

    def val(self, m):
        return m.var if m.var else "%du64" % m.const

    def check(self, ctx, e, m):
        return ['assert!((%s) as u64 == %s, "integer member differs: %s");' % (e, self.val(m), e)]

    def build(self, ctx, m):
        return "(%s as %s)" % (self.val(m), self.ty)


class TInt32(T):
    """signed 32-bit (COSE algorithm identifiers): concrete small value or symbolic argument"""
    name = "i32"

    def rust_ty(self):
        return "i32"

    def make(self, ctx, path):
        v = ctx.var.choice(path, -7)
        if isinstance(v, tuple):  # ("sym", cls, major)
            _, cls, major = v
            lo, hi = C.CLASS_RANGE[cls]
            hi = min(hi, 0x7FFFFFFF)
            var = ctx.h.sym_uint(lo, hi)
            return Leaf(var=var, cls=cls, major=major, const=None)
        return Leaf(var=None, const=v)

    def cbor(self, m):
        if m.var:
            return C.SymInt(m.var, m.cls, m.major)
        return C.Int(m.const)

    def val(self, m):
        if m.var:
            return ("(%s as i64)" % m.var) if m.major == 0 else ("(-1i64 - (%s as i64))" % m.var)
        return "%di64" % m.const

    def check(self, ctx, e, m):
        return ['assert!((%s) as i64 == %s, "signed member differs: %s");' % (e, self.val(m), e)]

    def build(self, ctx, m):
        return "(%s as i32)" % self.val(m)


class TBool(T):
    name = "bool"

    def rust_ty(self):
        return "bool"

    def make(self, ctx, path):
        # A CBOR boolean is a single byte, i.e. its value IS the head byte.  On the decode side
        # every boolean sits under Option<bool>, whose null test peeks that byte: a symbolic
        # boolean makes the decoder position an ite() and everything after it explodes
        # (measured: GetAssertion options + any other member > 200 s, concrete 15 s).  So on
        # the decode side booleans are layout (enumerated); on the encode side they are symbolic.
        if ctx.var.symbool:
            return Leaf(var=ctx.h.sym_bool())
        b = ctx.var.choice(path, None)
        if b is None:
            ctx.var._boolctr = getattr(ctx.var, "_boolctr", 0) + 1
            b = ((ctx.var._boolctr + ctx.var.seed + ctx.var.boolflip) % 2) == 1
        return Leaf(var="true" if b else "false", const=b)

    def cbor(self, m):
        if m.var in ("true", "false"):
            return C.Bool(m.var == "true")
        return C.Bool(m.var)

    def check(self, ctx, e, m):
        return ['assert!((%s) == %s, "bool member differs: %s");' % (e, m.var, e)]

    def build(self, ctx, m):
        return m.var


class TUnitMap(T):
    """a struct with no members: always the empty map"""

    def __init__(self, rust):
        self.rust = rust
        self.name = rust

    def rust_ty(self):
        return self.rust

    def make(self, ctx, path):
        return Leaf()

    def cbor(self, m):
        return C.Map([])

    def check(self, ctx, e, m):
        return []

    def build(self, ctx, m):
        # #[non_exhaustive]: obtainable from outside the crate only by decoding the empty map
        return "cbor_deserialize::<%s>(&[0xa0u8]).ok().unwrap()" % self.rust


# --------------------------------------------------------------------------- enumerations
class TEnumText(T):
    def __init__(self, rust, variants):
        self.rust, self.variants = rust, variants   # list of (RustVariant, spelling)
        self.name = rust

    def rust_ty(self):
        return self.rust

    def make(self, ctx, path):
        idx = ctx.var.choice(path, 0) % len(self.variants)
        return Leaf(idx=idx)

    def cbor(self, m):
        return C.Text(self.variants[m.idx][1])

    def check(self, ctx, e, m):
        return ['assert!(matches!(%s, %s::%s), "enum member differs: %s");' % (e, self.rust, self.variants[m.idx][0], e)]

    def build(self, ctx, m):
        return "%s::%s" % (self.rust, self.variants[m.idx][0])


class TEnumInt(T):
    def __init__(self, rust, variants):
        self.rust, self.variants = rust, variants   # list of (RustVariant, number)
        self.name = rust

    def rust_ty(self):
        return self.rust

    def make(self, ctx, path):
        idx = ctx.var.choice(path, 0) % len(self.variants)
        return Leaf(idx=idx)

    def cbor(self, m):
        return C.UInt(self.variants[m.idx][1])

    def check(self, ctx, e, m):
        return ['assert!(matches!(%s, %s::%s), "enum member differs: %s");' % (e, self.rust, self.variants[m.idx][0], e)]

    def build(self, ctx, m):
        return "%s::%s" % (self.rust, self.variants[m.idx][0])


# --------------------------------------------------------------------------- containers
class F:
    """one member of a map: key (int or str), rust field, type, required?, gating feature"""

    def __init__(self, key, rust, ty, required=False, feature=None, alias=None, private=False,
                 skip_ser=False):
        self.key, self.rust, self.ty, self.required = key, rust, ty, required
        self.feature, self.alias, self.private, self.skip_ser = feature, alias, private, skip_ser


class TStruct(T):
    def __init__(self, name, rust, fields, ctor=None, literal=False):
        self.name, self.rust, self.fields = name, rust, fields
        self.ctor = ctor          # ("default",) | ("builder", path, [fields]) | None
        self.literal = literal    # constructible by struct literal (not non_exhaustive)

    def rust_ty(self):
        return self.rust

    def field(self, rust):
        for f in self.fields:
            if f.rust == rust:
                return f
        raise KeyError(rust)

    def make(self, ctx, path):
        m = {}
        if getattr(self, "feature", None):
            ctx.requires.add(self.feature)      # the type itself only exists under this feature
        for f in self.fields:
            if f.private:
                m[f.rust] = None
                continue
            pres = f.required or ctx.var.is_present(self.name, f.rust)
            if f.feature and pres and not f.required:
                # optional feature-gated member: only present when the variation names it
                pres = self.name in ctx.var.present and f.rust in ctx.var.present[self.name]
            if pres:
                if f.feature:
                    ctx.requires.add(f.feature)
                m[f.rust] = f.ty.make(ctx, path + "." + f.rust)
            else:
                m[f.rust] = None
        return m

    def key_node(self, f, m=None):
        k = f.key
        return C.Text(k) if isinstance(k, str) else C.Int(k)

    def entries(self, m):
        ent = []
        for f in self.fields:
            if m.get(f.rust) is not None:
                ent.append((self.key_node(f), f.ty.cbor(m[f.rust])))
        return ent

    def cbor(self, m):
        return C.Map(self.entries(m)).canonical()

    def cbor_ser(self, m):
        """expected *serialisation*: like cbor() minus members that are never emitted"""
        ent = []
        for f in self.fields:
            if m.get(f.rust) is not None and not f.skip_ser:
                ty = f.ty
                node = ty.cbor_ser(m[f.rust]) if hasattr(ty, "cbor_ser") else ty.cbor(m[f.rust])
                ent.append((self.key_node(f), node))
        return C.Map(ent).canonical()

    def check(self, ctx, e, m):
        out = []
        for f in self.fields:
            if f.private:
                continue
            fe = "%s.%s" % (e, f.rust)
            mv = m.get(f.rust)
            pre = ('#[cfg(feature = "%s")] ' % f.feature) if f.feature else ""
            if f.required:
                out += f.ty.check(ctx, fe, mv)
            elif mv is None:
                out.append('%sassert!((%s).is_none(), "member not sent must be absent: %s");' % (pre, fe, fe))
            else:
                x = ctx.h.fresh("x")
                inner = f.ty.check(ctx, "(*%s)" % x, mv)
                out.append("%smatch &(%s) {" % (pre, fe))
                out.append("    Some(%s) => {" % x)
                out += ["        " + l for l in inner]
                out.append("    }")
                out.append('    None => assert!(false, "member sent but reported absent: %s"),' % fe)
                out.append("}")
        return out

    def build(self, ctx, m):
        v = ctx.h.fresh("val")
        lines = []
        if self.literal:
            parts = []
            for f in self.fields:
                mv = m.get(f.rust)
                if f.required:
                    parts.append("%s: %s" % (f.rust, f.ty.build(ctx, mv)))
                elif mv is None:
                    parts.append("%s: None" % f.rust)
                else:
                    parts.append("%s: Some(%s)" % (f.rust, f.ty.build(ctx, mv)))
            ctx.h.add("let %s = %s { %s };" % (v, self.rust, ", ".join(parts)))
            return v
        if self.ctor[0] == "decode":
            # non_exhaustive, no Default, no builder: the only way to obtain a value from outside
            # the crate is to decode one (what an application would have to do as well)
            enc = C.encode(self.cbor(m))
            arr = ctx.h.fresh("enc")
            ctx.h.add(*ctx.h.array_literal(arr, enc))
            ctx.h.add("let %s: %s = cbor_deserialize(&%s).ok().unwrap();" % (v, self.rust, arr))
            return v
        wrap = getattr(ctx, "wrap_variant", None) if getattr(ctx, "wrap_schema", None) is self else None
        if self.ctor[0] == "default":
            init = "<%s>::default()" % self.rust
            skip = ()
        else:
            _, bpath, bfields = self.ctor
            parts = ["%s: %s" % (bf, self.field(bf).ty.build(ctx, m[bf])) for bf in bfields]
            init = "%s { %s }.build()" % (bpath, ", ".join(parts))
            skip = bfields
        if wrap:
            # build the value directly inside the ctap2::Response variant and fill it in place: moving a
            # finished 1.5 KB response into the enum makes CBMC lose the Option discriminants (DESIGN section 2)
            ctx.h.add("let mut resp = Response::%s(%s);" % (wrap, init))
            ctx.h.add("let Response::%s(%s) = &mut resp else { return; };" % (wrap, v))
        else:
            ctx.h.add("let mut %s = %s;" % (v, init))
        for f in self.fields:
            if f.rust in skip or f.private:
                continue
            mv = m.get(f.rust)
            pre = ('#[cfg(feature = "%s")] ' % f.feature) if f.feature else ""
            if f.required:
                ctx.h.add("%s%s.%s = %s;" % (pre, v, f.rust, f.ty.build(ctx, mv)))
            elif mv is None:
                ctx.h.add("%s{ %s.%s = None; }" % (pre, v, f.rust))
            else:
                ctx.h.add("%s{ %s.%s = Some(%s); }" % (pre, v, f.rust, f.ty.build(ctx, mv)))
        return v


class TList(T):
    def __init__(self, elem, cap, dcount=1):
        self.elem, self.cap, self.dcount = elem, cap, dcount
        self.name = "list<%s>" % elem.name

    def rust_ty(self):
        return "ctap_types::Vec<%s, %d>" % (self.elem.rust_ty(), self.cap)

    def make(self, ctx, path):
        n = ctx.var.length(path + "#count", self.dcount)
        return [self.elem.make(ctx, "%s[%d]" % (path, i)) for i in range(n)]

    def cbor(self, m):
        return C.Array([self.elem.cbor(x) for x in m])

    def cbor_ser(self, m):
        return C.Array([(self.elem.cbor_ser(x) if hasattr(self.elem, "cbor_ser") else self.elem.cbor(x)) for x in m])

    def check(self, ctx, e, m):
        out = ['assert!((%s).len() == %d, "list length differs: %s");' % (e, len(m), e)]
        for i, x in enumerate(m):
            out += self.elem.check(ctx, "(%s)[%d]" % (e, i), x)
        return out

    def build(self, ctx, m):
        v = ctx.h.fresh("list")
        ctx.h.add("let mut %s = ctap_types::Vec::<%s, %d>::new();" % (v, self.elem.rust_ty(), self.cap))
        for x in m:
            ctx.h.add("%s.push(%s).ok().unwrap();" % (v, self.elem.build(ctx, x)))
        return v
