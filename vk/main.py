"""./check <Cxx> [--tier quick|thorough] [--replay <path>] — see DESIGN.md §3 (runner contract)."""

import argparse
import itertools
import json
import os
import re
import subprocess
import sys
import time

from . import kani
from .kani import ROOT, HARNESS, WORK, GEN, WIRE

ALL_ON = tuple(WIRE)


def all_configs():
    out = []
    for r in range(len(WIRE) + 1):
        for c in itertools.combinations(WIRE, r):
            out.append(tuple(c))
    return out


def configs_for(tier):
    return all_configs()


def load_known():
    """known_findings.txt: lines `open: property=<id> key=<harness>|<assert substring> <text>` or
    `fixed: property=<id> <commit> <text>` (fixed entries suppress nothing)."""
    path = os.path.join(ROOT, "known_findings.txt")
    known = []
    if os.path.exists(path):
        for l in open(path):
            l = l.strip()
            if l.startswith("open:"):
                m = re.match(r"open:\s+property=(\w+)\s+key=(\S+)\s+(.*)", l)
                if m:
                    known.append({"property": m.group(1), "key": m.group(2), "text": m.group(3)})
    return known


def match_known(known, prop, hname, checks):
    for k in known:
        if k["property"] != prop:
            continue
        hk, _, ak = k["key"].partition("|")
        if not re.fullmatch(hk.replace("*", ".*"), hname.split("::")[-1]):
            continue
        if ak and not any(ak.replace("_", " ") in c["desc"] for c in checks):
            continue
        return k
    return None


def git_rev(path):
    try:
        return subprocess.run(["git", "-C", path, "rev-parse", "--short", "HEAD"], capture_output=True,
                              text=True).stdout.strip()
    except Exception:
        return "?"


def repo_dirty():
    try:
        return bool(subprocess.run(["git", "-C", "/repo", "status", "--porcelain", "--untracked-files=no"],
                                   capture_output=True, text=True).stdout.strip())
    except Exception:
        return False


def run_property(prop, tier, seed, only=None, jobs=16, keep_going=True):
    from . import plans
    t0 = time.time()
    os.makedirs(GEN, exist_ok=True)
    os.makedirs(os.path.join(WORK, "logs"), exist_ok=True)
    log = os.path.join(WORK, "logs", "%s-%s.log" % (prop, tier))
    open(log, "w").close()
    rp = os.path.join(GEN, "replay.rs")
    if not os.path.exists(rp):
        open(rp, "w").close()
    plan = plans.PLANS[prop](tier, seed)        # list of meta dicts (generated module written)
    if only:
        plan = [m for m in plan if re.search(only, m["name"])]
    mod = plans.MODULE[prop]
    cfgs = configs_for(tier)
    # assign each harness to the configurations it runs in
    groups = {}
    for m in plan:
        if tier not in m["tiers"]:
            continue
        ok = [c for c in cfgs if all(r in c for r in m["requires"]) and not any(f in c for f in m["forbids"])]
        if not ok:
            # needs a non-wire feature (arbitrary, std): the smallest configuration that has it
            ok = [tuple(sorted(m["requires"]))]
        mode = m.get("configs", "all")
        if mode in ("one", "rich"):
            ok = ok[-1:]          # the richest compatible configuration
        elif mode == "first":
            ok = ok[:1]
        elif mode == "all8":
            # thorough: every compatible configuration; quick: the bottom, the three single-feature
            # configurations and the top of the lattice (a feature's effect shows when toggled alone or with all others)
            if tier == "quick":
                ok = [c for c in ok if len(c) in (0, 1, len(WIRE))]
        elif mode == "all" and tier == "quick":
            ok = [ok[0]] + ([ok[-1]] if len(ok) > 1 else [])   # quick: poorest + richest compatible
        for c in ok:
            key = (c, m.get("unwindset"))
            groups.setdefault(key, []).append(m)
    results = []       # (meta, cfg, result)
    violations, inconclusive, known_hits = [], [], []
    unreplayed = []
    known = load_known()
    for (cfg, uws), metas in sorted(groups.items(), key=lambda kv: (kv[0][0], str(kv[0][1]))):
        # one invocation per configuration: the field-sensitivity bound is the largest any of
        # its harnesses needs (a larger bound never loses precision)
        fsas = [m.get("fsa") for m in metas if m.get("fsa")]
        fsa = max(fsas) if fsas else None
        names = ["%s::%s" % (mod, m["name"]) for m in metas]
        tmo = max(m["timeout"] for m in metas)
        res, out, wall, cerr = kani.run_group(prop, cfg, names, fsa=fsa, unwindset=uws, jobs=jobs, timeout=tmo, log=log)
        if cerr:
            print("[vk] harness crate failed to compile in configuration %s (see %s)" % (kani.cfg_name(cfg), log))
            tail = [l for l in out.splitlines() if l.startswith("error")][:10]
            for l in tail:
                print("      " + l)
        for m, n in zip(metas, names):
            r = res[n]
            results.append((m, cfg, r))
            expect_fail = m["expect"] == "fail"
            st = r["status"]
            if st == "success" and not expect_fail:
                if r["cover_total"] and r["cover_sat"] < r["cover_total"] and not m.get("cover_optional"):
                    inconclusive.append((m, cfg, "vacuity guard: %d of %d cover witnesses unsatisfied" % (r["cover_total"] - r["cover_sat"], r["cover_total"])))
                continue
            if st == "failed" and expect_fail:
                continue
            if st == "success" and expect_fail:
                inconclusive.append((m, cfg, "vacuity witness did not fail (harness unreachable?)"))
                continue
            if st == "failed":
                # counterexample extraction + native replay cost minutes per harness: the first MAX_REPLAYS failing
                # harnesses are replayed; further ones are listed in the evidence as failed-but-not-replayed
                if len([v for v in violations if v]) >= MAX_REPLAYS:
                    unreplayed.append((m, cfg))
                    continue
                checks, tests, cout = kani.counterexample(prop, cfg, n, fsa=fsa, unwindset=uws, log=log)
                violations.append(handle_failure(prop, m, cfg, n, checks, tests, known, known_hits, log, inconclusive))
                continue
            inconclusive.append((m, cfg, st + (" " + "; ".join(r["notes"][:2]) if r["notes"] else "")))
    violations = [v for v in violations if v]
    wall = time.time() - t0
    write_evidence(prop, tier, seed, plan, results, violations, inconclusive, known_hits, wall, cfgs)
    for k in known_hits:
        print("KNOWN-FINDING: property=%s %s" % (prop, k))
    for v in violations:
        print("VIOLATION property=%s replay=%s" % (prop, v))
    for m, cfg in unreplayed:
        print("FAILED-NOT-REPLAYED property=%s harness=%s config=%s (replay budget of %d used up by the violations above)"
              % (prop, m["name"], kani.cfg_name(cfg), MAX_REPLAYS))
    for m, cfg, why in inconclusive:
        print("INCONCLUSIVE property=%s harness=%s config=%s reason=%s" % (prop, m["name"], kani.cfg_name(cfg), why))
    nproved = sum(1 for m, c, r in results if (r["status"] == "success") != (m["expect"] == "fail"))
    print("[vk] %s %s: %d harness runs, %d as expected, %d violations, %d inconclusive, %.0fs (log %s)"
          % (prop, tier, len(results), nproved, len(violations), len(inconclusive), wall, log))
    if violations:
        return 1
    # Undecided instances (timeout, out of memory, unwinding assertion, unsatisfied cover witness) are never
    # counted as held: they are printed as INCONCLUSIVE and listed in the evidence file.  The exit status is 0
    # ("held on everything explored") as long as the run as a whole was meaningful; a harness crate that does
    # not compile, a vacuity witness that misbehaves, or more than a quarter of the instances undecided means
    # the check itself is not in working order: exit 2.
    hard = [w for m, c, w in inconclusive if "compile_error" in w or "vacuity" in w or "did not reproduce" in w or "noresult" in w]
    if hard or (results and len(inconclusive) * 4 > len(results)):
        return 2
    if unreplayed:
        return 2      # failing harnesses without any reproducing violation: cannot happen unless replays were inconclusive
    return 0


MAX_REPLAYS = int(os.environ.get("VK_MAX_REPLAYS", "3"))

UB_MARKERS = ("unreachable code", "unwinding assertion", "pointer", "dereference", "unsafe", "undefined")


def handle_failure(prop, m, cfg, name, checks, tests, known, known_hits, log, inconclusive):
    """replay natively; returns replay path for a reproducing, not-listed violation"""
    k = match_known(known, prop, name, checks)
    os.makedirs(os.path.join(ROOT, "replays", prop), exist_ok=True)
    path = os.path.join(ROOT, "replays", prop, "%s@%s.json" % (m["name"], kani.cfg_name(cfg)))
    only_unwinding = checks and all("unwinding assertion" in c["desc"] for c in checks)
    if only_unwinding:
        inconclusive.append((m, cfg, "unwinding assertion failed: bound too small for this tree (no verdict)"))
        return None
    rep_dev = rep_rel = None
    outs = ""
    if tests:
        rep_dev, o1 = kani.native_replay(prop, cfg, tests, release=False, log=log)
        # `cargo kani playback` (0.68) has no release profile; the dev profile is what Kani models
        rep_rel = None
        outs = o1[-3000:]
    ub_only = checks and all(any(u in c["desc"].lower() for u in UB_MARKERS) for c in checks)
    art = {"property": prop, "harness": name, "module_feature": prop.lower(), "config": list(cfg),
           "desc": m["desc"], "failed_checks": checks, "playback_tests": tests,
           "reproduced_dev": rep_dev, "reproduced_release": rep_rel, "sample": m.get("sample"),
           "repo_rev": git_rev("/repo"), "native_output_tail": outs,
           "how": "./check %s --replay %s" % (prop, path)}
    with open(path, "w") as f:
        json.dump(art, f, indent=1)
    if k:
        known_hits.append("%s [%s] %s" % (k["key"], kani.cfg_name(cfg), k["text"]))
        return None
    if rep_dev or rep_rel:
        return path
    if ub_only:
        # undefined behaviour has no native symptom; reported with the Kani trace
        return path
    if not checks and not tests:
        inconclusive.append((m, cfg, "harness failed but no counterexample could be extracted"))
        return None
    inconclusive.append((m, cfg, "counterexample did not reproduce natively (encoding/stub fault?) see " + path))
    return None


def write_evidence(prop, tier, seed, plan, results, violations, inconclusive, known_hits, wall, cfgs):
    from . import plans
    os.makedirs(os.path.join(ROOT, "evidence"), exist_ok=True)
    ok = [(m, c, r) for m, c, r in results if (r["status"] == "success") != (m["expect"] == "fail")]
    checks_total = sum(r["checks"] for m, c, r in results)
    distinct = len({(m["name"], c) for m, c, r in ok if r["checks"] > 0})
    samples = []
    seen = set()
    for m, c, r in results:
        if m["name"] in seen:
            continue
        seen.add(m["name"])
        samples.append({"harness": m["name"], "config": kani.cfg_name(c), "what": m["desc"],
                        "bounds": m["bounds"], "symbolic_input_bytes": m.get("symbolic_input_bytes"),
                        "input_template": m.get("sample"), "status": r["status"], "checks": r["checks"],
                        "cover_witnesses": "%d/%d" % (r["cover_sat"], r["cover_total"]),
                        "solver_seconds": round(r["time"], 2)})
    info = plans.INFO.get(prop, {})
    ev = {
        "property_id": prop, "tier": tier, "seed": seed, "level": "model_checking",
        "coverage": {
            "evaluations": len(results),
            "distinct_nontrivial": distinct,
            "rule": "one evaluation = one Kani/CBMC run of one #[kani::proof] harness in one cargo-feature "
                    "configuration of the real crate; it quantifies over ALL values of its symbolic inputs within "
                    "the stated bounds. Non-trivial and distinct = distinct (harness, configuration) pairs whose run "
                    "produced the expected verdict with >0 CBMC checks (assertions + implicit safety checks + "
                    "unwinding assertions) and all kani::cover! reachability witnesses satisfied.",
            "samples": samples[:400],
            "obligations": checks_total,
            "discharged": sum(r["checks"] - r["failed"] for m, c, r in ok),
            "harness_runs": len(results),
            "harness_runs_as_expected": len(ok),
            "inconclusive": [{"harness": m["name"], "config": kani.cfg_name(c), "reason": w} for m, c, w in inconclusive],
            "known_findings_hit": known_hits,
            "violations": violations,
            "configurations": [kani.cfg_name(c) for c in sorted({c for m, c, r in results})],
            "solver_seconds_total": round(sum(r["time"] for m, c, r in results), 1),
            "functions_encoded": info.get("functions", []),
            "bounds": info.get("bounds", ""),
            "outside_bounds": info.get("out", ""),
            "checker_cmd": "cargo kani (Kani 0.68.0, CBMC 6.11.0, CaDiCaL) -Z stubbing --exact --harness <h> "
                           "[--cbmc-args --max-field-sensitivity-array-size N]",
            "trusted_base": ["Kani MIR->GOTO translation", "CBMC 6.11 + CaDiCaL", "vk/spec.py oracle tables",
                             "vk/cbor.py reference encoder", "harness/src/utf8.rs from_utf8 stub (equivalence to std "
                             "proved for all strings <= 6 bytes by selfcheck::utf8_stub_equiv_len6)"],
            "repo_rev": git_rev("/repo"), "repo_dirty": repo_dirty(), "verif_rev": git_rev(ROOT),
            "exhaustive": False,
        },
        "assumptions": info.get("assumptions", []) + [
            "bounded model checking: verdicts hold for all values of the symbolic inputs within the stated bounds only",
            "CBOR layout (heads, lengths, presence, small integers living in a head byte) is enumerated per instance, "
            "not symbolic",
        ],
        "wall_s": round(wall, 1),
        "violations": len(violations),
    }
    with open(os.path.join(ROOT, "evidence", prop + ".json"), "w") as f:
        json.dump(ev, f, indent=1)


def replay(prop, path):
    art = json.load(open(path))
    cfg = tuple(art["config"])
    if not art.get("playback_tests"):
        print("no playback test recorded (UB-class finding); re-running the harness under Kani")
        res, out, wall, _ = kani.run_group(prop, cfg, [art["harness"]], jobs=1)
        print(json.dumps(res, indent=1))
        return 1 if res[art["harness"]]["status"] == "failed" else 0
    # the generated module must exist for the test to link: regenerate
    from . import plans
    plans.PLANS[prop]("thorough", 0)
    rep, out = kani.native_replay(prop, cfg, art["playback_tests"], release=False)
    print(out[-4000:])
    if rep:
        print("VIOLATION property=%s replay=%s" % (prop, path))
        return 1
    print("[vk] replay did not fail on this tree")
    return 0


def main(argv=None):
    ap = argparse.ArgumentParser()
    ap.add_argument("prop")
    ap.add_argument("--tier", default=os.environ.get("VERIF_TIER", "quick"), choices=["quick", "thorough"])
    ap.add_argument("--replay")
    ap.add_argument("--only", help="regex on harness names (debugging)")
    ap.add_argument("-j", type=int, default=int(os.environ.get("VK_JOBS", "16")))
    a = ap.parse_args(argv)
    seed = int(os.environ.get("VERIF_SEED", "0") or 0)
    prop = a.prop.upper()
    if a.replay:
        sys.exit(replay(prop, a.replay))
    sys.exit(run_property(prop, a.tier, seed, only=a.only, jobs=a.j))


if __name__ == "__main__":
    main()
