"""ORACLE TABLES — written from the CTAP 2.1 / 2.2 specification (authenticator API tables,
section 6), WebAuthn L2 dictionaries and RFC 8152 (COSE key labels).  Nothing here is
derived from /repo: the integer keys, text keys, optionality, capacities and identifier
spellings below are the specification side of every comparison.  The only repo-facing
part is the *Rust field name* each specified member must appear under (the public API).
"""

from . import cbor as C
from .types import (T, F, Leaf, TBytes, TText, TUInt, TInt32, TBool, TStruct, TList, TEnumText,
                    TEnumInt, TUnitMap)

GIF = "get-info-full"
LB = "large-blobs"
TPP = "third-party-payment"
WIRE_FEATURES = (GIF, LB, TPP)

# ------------------------------------------------------------------ COSE keys (RFC 8152 §7, §13)
COSE = {
    # kind: (rust variant / type, kty, alg, crv, has_x, has_y)
    "ecdh": ("cosey::EcdhEsHkdf256PublicKey", 2, -25, 1, True, True),
    "p256": ("cosey::P256PublicKey", 2, -7, 1, True, True),
    "ed25519": ("cosey::Ed25519PublicKey", 1, -8, 6, True, False),
    "totp": ("cosey::TotpPublicKey", 4, -9, None, False, False),
}


class TCoseKey(T):
    """COSE_Key as CTAP uses it: {1: kty, 3: alg, -1: crv, -2: x, -3: y} in this (canonical) order."""

    def __init__(self, kind, wrap=None):
        self.kind, self.wrap = kind, wrap   # wrap: cosey::PublicKey enum variant name or None
        self.name = "cose:" + kind

    def rust_ty(self):
        return "cosey::PublicKey" if self.wrap else COSE[self.kind][0]

    def make(self, ctx, path):
        _, _, _, _, hx, hy = COSE[self.kind]
        m = Leaf(x=None, y=None)
        if hx:
            m.x = Leaf(**dict(zip(("var", "ex"), ctx.h.sym_bytes(32))))
        if hy:
            m.y = Leaf(**dict(zip(("var", "ex"), ctx.h.sym_bytes(32))))
        return m

    def cbor(self, m):
        _, kty, alg, crv, hx, hy = COSE[self.kind]
        ent = [(C.Int(1), C.Int(kty)), (C.Int(3), C.Int(alg))]
        if crv is not None:
            ent.append((C.Int(-1), C.Int(crv)))
        if hx:
            ent.append((C.Int(-2), C.Bytes(m.x.ex)))
        if hy:
            ent.append((C.Int(-3), C.Bytes(m.y.ex)))
        return C.Map(ent)

    def check(self, ctx, e, m):
        out = []
        if m.x:
            out.append('assert!(eq(&(%s).x[..], &%s[..]), "COSE x differs");' % (e, m.x.var))
        if m.y:
            out.append('assert!(eq(&(%s).y[..], &%s[..]), "COSE y differs");' % (e, m.y.var))
        return out

    def build(self, ctx, m):
        rust = COSE[self.kind][0]
        parts = []
        if m.x:
            parts.append("x: ctap_types::Bytes::<32>::from_slice(&%s).unwrap()" % m.x.var)
        if m.y:
            parts.append("y: ctap_types::Bytes::<32>::from_slice(&%s).unwrap()" % m.y.var)
        inner = "%s { %s }" % (rust, ", ".join(parts))
        if self.wrap:
            return "cosey::PublicKey::%s(%s)" % (self.wrap, inner)
        return inner


# ------------------------------------------------------------------ WebAuthn dictionaries
class TIcon(T):
    """rp.icon / rp.url: accepted, never stored, never re-emitted"""
    name = "icon"

    def make(self, ctx, path):
        n = ctx.var.length(path, 5)
        var, ex = ctx.h.sym_text(n, ctx.var.text)
        return Leaf(var=var, ex=ex, n=n)

    def cbor(self, m):
        return C.Text(m.ex)

    def check(self, ctx, e, m):
        return []

    def rust_ty(self):
        return "ctap_types::webauthn::Icon"

    def build(self, ctx, m):
        return "ctap_types::webauthn::Icon"


RP = TStruct("rp", "ctap_types::webauthn::PublicKeyCredentialRpEntity", [
    F("id", "id", TText("hl", 256, dlen=6), required=True),
    F("name", "name", TText("hl", 64, dlen=5, lossy="truncate")),
    F("icon", "icon", TIcon(), alias="url", skip_ser=True),
], literal=True)

USER = TStruct("user", "ctap_types::webauthn::PublicKeyCredentialUserEntity", [
    F("id", "id", TBytes("hl", 64, dlen=8), required=True),
    F("icon", "icon", TText("hl", 128, dlen=7, lossy="skip")),
    F("name", "name", TText("hl", 64, dlen=5, lossy="truncate")),
    F("displayName", "display_name", TText("hl", 64, dlen=6, lossy="truncate")),
], literal=True)

DESC_REF = TStruct("descref", "ctap_types::webauthn::PublicKeyCredentialDescriptorRef", [
    F("id", "id", TBytes("ref", dlen=8), required=True),
    F("type", "key_type", TText("ref", dlen=10), required=True),
], literal=True)

DESC = TStruct("desc", "ctap_types::webauthn::PublicKeyCredentialDescriptor", [
    F("id", "id", TBytes("hl", 255, dlen=8), required=True),
    F("type", "key_type", TText("hl", 32, dlen=10), required=True),
], literal=True)

PARAMS = TStruct("params", "ctap_types::webauthn::PublicKeyCredentialParameters", [
    F("alg", "alg", TInt32(), required=True),
    F("type", "key_type", TText("hl", 32, dlen=10), required=True),
], literal=True)

# request-side options map (CTAP 2.1 §6.1 options: rk, up, uv)
AUTH_OPTIONS = TStruct("options", "ctap2::AuthenticatorOptions", [
    F("rk", "rk", TBool()),
    F("up", "up", TBool()),
    F("uv", "uv", TBool()),
], ctor=("decode",))

MC_EXT = TStruct("mcext", "ctap2::make_credential::Extensions", [
    F("credProtect", "cred_protect", TUInt("u8", small=2)),
    F("hmac-secret", "hmac_secret", TBool()),
    F("largeBlobKey", "large_blob_key", TBool()),
    F("thirdPartyPayment", "third_party_payment", TBool(), feature=TPP),
], ctor=("default",))

HMAC_INPUT = TStruct("hmacin", "ctap2::get_assertion::HmacSecretInput", [
    F(1, "key_agreement", TCoseKey("ecdh"), required=True),
    F(2, "salt_enc", TBytes("hl", 80, dlen=32), required=True),
    F(3, "salt_auth", TBytes("hl", 32, dlen=16), required=True),
    F(4, "pin_protocol", TUInt("u32")),
], ctor=("decode",))

GA_EXT_IN = TStruct("gaext", "ctap2::get_assertion::ExtensionsInput", [
    F("hmac-secret", "hmac_secret", HMAC_INPUT),
    F("largeBlobKey", "large_blob_key", TBool()),
    F("thirdPartyPayment", "third_party_payment", TBool(), feature=TPP),
], ctor=("default",))

GA_EXT_OUT = TStruct("gaextout", "ctap2::get_assertion::ExtensionsOutput", [
    F("hmac-secret", "hmac_secret", TBytes("hl", 80, dlen=32)),
    F("thirdPartyPayment", "third_party_payment", TBool(), feature=TPP),
], ctor=("default",))


class TFilteredParams(T):
    """pubKeyCredParams / algorithms: on decode only ("public-key", ES256 -7 | EdDSA -8) survive,
    first two, in order.  Model: list of entries given by ctx.var.choice(path, [...]) with
    entries "es256" | "eddsa" | "unkalg" (symbolic algorithm outside the known set) |
    "unktype" (known algorithm, other type)."""
    name = "filteredparams"
    rust = "ctap_types::webauthn::FilteredPublicKeyCredentialParameters"

    def rust_ty(self):
        return "ctap_types::webauthn::FilteredPublicKeyCredentialParameters"

    def make(self, ctx, path):
        kinds = ctx.var.choice(path, ["es256"])
        ents = []
        for idx, k in enumerate(kinds):
            if k in ("es256", "eddsa"):
                ents.append(Leaf(kind=k, alg=-7 if k == "es256" else -8, ty=list(b"public-key"), var=None))
            elif k == "unkalg":
                if idx == len(kinds) - 1:
                    # symbolic over a whole head class -- only as the LAST entry: a symbolic integer
                    # followed by further items makes CBMC lose the decoder position (DESIGN.md section 2)
                    cls, major = ctx.var.choice(path + "#unk", (2, 1))
                    lo, hi = C.CLASS_RANGE[cls]
                    var = ctx.h.sym_uint(lo, min(hi, 0x7FFFFFFF))
                    ents.append(Leaf(kind=k, var=var, cls=cls, major=major, ty=list(b"public-key")))
                else:
                    alg = [-257, -37, -65535, 1, -9, 24, -25, 0x7FFFFFFF, -0x80000000][(idx + ctx.var.seed) % 9]
                    ents.append(Leaf(kind=k, alg=alg, ty=list(b"public-key"), var=None))
            elif k == "unktype":
                tv, tex = ctx.h.sym_text(10, ctx.var.text)
                ctx.h.decl.append('kani::assume(!eq(&%s, b"public-key"));' % tv)
                ents.append(Leaf(kind=k, alg=-7, ty=tex, var=None))
            else:
                raise ValueError(k)
        return ents

    def cbor(self, m):
        items = []
        for e in m:
            alg = C.SymInt(e.var, e.cls, e.major) if e.var else C.Int(e.alg)
            items.append(C.Map([(C.Text("alg"), alg), (C.Text("type"), C.Text(e.ty))]))
        return C.Array(items)

    def expected(self, m):
        return [e.alg for e in m if e.kind in ("es256", "eddsa")][:2]

    def cbor_ser(self, m):
        return C.Array([C.Map([(C.Text("alg"), C.Int(a)), (C.Text("type"), C.Text("public-key"))])
                        for a in self.expected(m)])

    def check(self, ctx, e, m):
        exp = self.expected(m)
        out = ['assert!((%s).0.len() == %d, "filtered algorithm list length: %s");' % (e, len(exp), e)]
        for i, a in enumerate(exp):
            out.append('assert!((%s).0[%d].alg == %d, "filtered algorithm order/value: %s");' % (e, i, a, e))
        return out

    def build(self, ctx, m):
        v = ctx.h.fresh("fp")
        ctx.h.add("let mut %s = ctap_types::webauthn::FilteredPublicKeyCredentialParameters(Default::default());" % v)
        for a in self.expected(m):
            ctx.h.add("%s.0.push(ctap_types::webauthn::KnownPublicKeyCredentialParameters { alg: %d }).ok().unwrap();" % (v, a))
        return v


class TAttFmtPref(T):
    """attestationFormatsPreference: entries "packed" | "none" | "tpm" | "sym<n>" (symbolic text of
    n bytes assumed different from the known spellings)"""
    name = "attfmtpref"
    rust = "ctap2::AttestationFormatsPreference"

    def make(self, ctx, path):
        kinds = ctx.var.choice(path, ["packed"])
        ents = []
        for k in kinds:
            if k in ("packed", "none", "tpm"):
                ents.append(Leaf(kind=k, ex=list(k.encode())))
            else:
                n = int(k[3:])
                v, ex = ctx.h.sym_text(n, ctx.var.text)
                ctx.h.decl.append('kani::assume(!eq(&%s, b"packed") && !eq(&%s, b"none"));' % (v, v))
                ents.append(Leaf(kind="unknown", ex=ex))
        return ents

    def cbor(self, m):
        return C.Array([C.Text(e.ex) for e in m])

    def check(self, ctx, e, m):
        known = [x.kind for x in m if x.kind in ("packed", "none")][:2]
        unk = any(x.kind not in ("packed", "none") for x in m)
        out = ['assert!((%s).known_formats().len() == %d, "known formats count");' % (e, len(known))]
        for i, k in enumerate(known):
            v = "Packed" if k == "packed" else "None"
            out.append('assert!(matches!((%s).known_formats()[%d], ctap2::AttestationStatementFormat::%s), "known format order");' % (e, i, v))
        out.append('assert!((%s).includes_unknown_formats() == %s, "unknown-format flag");' % (e, "true" if unk else "false"))
        return out


# ------------------------------------------------------------------ requests (CTAP 2.1 §6)
MC_REQ = TStruct("mc", "ctap2::make_credential::Request", [
    F(0x01, "client_data_hash", TBytes("ref", dlen=32), required=True),
    F(0x02, "rp", RP, required=True),
    F(0x03, "user", USER, required=True),
    F(0x04, "pub_key_cred_params", TFilteredParams(), required=True),
    F(0x05, "exclude_list", TList(DESC_REF, 16)),
    F(0x06, "extensions", MC_EXT),
    F(0x07, "options", AUTH_OPTIONS),
    F(0x08, "pin_auth", TBytes("ref", dlen=16)),
    F(0x09, "pin_protocol", TUInt("u32")),
    F(0x0A, "enterprise_attestation", TUInt("u32")),
    F(0x0B, "attestation_formats_preference", TAttFmtPref()),
])

GA_REQ = TStruct("ga", "ctap2::get_assertion::Request", [
    F(0x01, "rp_id", TText("ref", dlen=11), required=True),
    F(0x02, "client_data_hash", TBytes("ref", dlen=32), required=True),
    F(0x03, "allow_list", TList(DESC_REF, 10)),
    F(0x04, "extensions", GA_EXT_IN),
    F(0x05, "options", AUTH_OPTIONS),
    F(0x06, "pin_auth", TBytes("ref", dlen=16)),
    F(0x07, "pin_protocol", TUInt("u32")),
    F(0x08, "enterprise_attestation", TUInt("u32")),
    F(0x09, "attestation_formats_preference", TAttFmtPref()),
])

PIN_SUBCOMMANDS = [
    ("GetRetries", 1), ("GetKeyAgreement", 2), ("SetPin", 3), ("ChangePin", 4), ("GetPinToken", 5),
    ("GetPinUvAuthTokenUsingUvWithPermissions", 6), ("GetUVRetries", 7),
    ("GetPinUvAuthTokenUsingPinWithPermissions", 9),
]
PIN_SUBCOMMAND = TEnumInt("ctap2::client_pin::PinV1Subcommand", PIN_SUBCOMMANDS)

CP_REQ = TStruct("cp", "ctap2::client_pin::Request", [
    F(0x01, "pin_protocol", TUInt("u8"), required=True),
    F(0x02, "sub_command", PIN_SUBCOMMAND, required=True),
    F(0x03, "key_agreement", TCoseKey("ecdh")),
    F(0x04, "pin_auth", TBytes("ref", dlen=16)),
    F(0x05, "new_pin_enc", TBytes("ref", dlen=64)),
    F(0x06, "pin_hash_enc", TBytes("ref", dlen=16)),
    F(0x07, "_placeholder07", None, private=True),
    F(0x08, "_placeholder08", None, private=True),
    F(0x09, "permissions", TUInt("u8")),
    F(0x0A, "rp_id", TText("ref", dlen=11)),
])

CM_SUBCOMMANDS = [
    ("GetCredsMetadata", 1), ("EnumerateRpsBegin", 2), ("EnumerateRpsGetNextRp", 3),
    ("EnumerateCredentialsBegin", 4), ("EnumerateCredentialsGetNextCredential", 5),
    ("DeleteCredential", 6), ("UpdateUserInformation", 7),
]
CM_SUBCOMMAND = TEnumInt("ctap2::credential_management::Subcommand", CM_SUBCOMMANDS)

CM_PARAMS = TStruct("cmparams", "ctap2::credential_management::SubcommandParameters", [
    F(0x01, "rp_id_hash", TBytes("baref", exact=32)),
    F(0x02, "credential_id", DESC_REF),
    F(0x03, "user", USER),
])

CM_REQ = TStruct("cm", "ctap2::credential_management::Request", [
    F(0x01, "sub_command", CM_SUBCOMMAND, required=True),
    F(0x02, "sub_command_params", CM_PARAMS),
    F(0x03, "pin_protocol", TUInt("u8")),
    F(0x04, "pin_auth", TBytes("ref", dlen=16)),
])

LB_REQ = TStruct("lb", "ctap2::large_blobs::Request", [
    F(0x01, "get", TUInt("u32")),
    F(0x02, "set", TBytes("ref", dlen=17)),
    F(0x03, "offset", TUInt("u32"), required=True),
    F(0x04, "length", TUInt("u32")),
    F(0x05, "pin_uv_auth_param", TBytes("ref", dlen=16)),
    F(0x06, "pin_uv_auth_protocol", TUInt("u32")),
])

# command byte -> (schema, Request variant)
REQUESTS = {
    0x01: (MC_REQ, "MakeCredential"),
    0x02: (GA_REQ, "GetAssertion"),
    0x06: (CP_REQ, "ClientPin"),
    0x0A: (CM_REQ, "CredentialManagement"),
    0x41: (CM_REQ, "CredentialManagement"),
    0x0C: (LB_REQ, "LargeBlobs"),
}

# ------------------------------------------------------------------ responses
VERSIONS = [("Fido2_0", "FIDO_2_0"), ("Fido2_1", "FIDO_2_1"), ("Fido2_1Pre", "FIDO_2_1_PRE"), ("U2fV2", "U2F_V2")]
EXTENSIONS = [("CredProtect", "credProtect"), ("HmacSecret", "hmac-secret"), ("LargeBlobKey", "largeBlobKey"),
              ("ThirdPartyPayment", "thirdPartyPayment")]
TRANSPORTS = [("Nfc", "nfc"), ("Usb", "usb")]
ATT_FORMATS = [("None", "none"), ("Packed", "packed")]
CRED_PROTECT = [("Optional", 1), ("OptionalWithCredentialIdList", 2), ("Required", 3)]

VERSION = TEnumText("ctap2::get_info::Version", VERSIONS)
EXTENSION = TEnumText("ctap2::get_info::Extension", EXTENSIONS)
TRANSPORT = TEnumText("ctap2::get_info::Transport", TRANSPORTS)
ATT_FORMAT = TEnumText("ctap2::AttestationStatementFormat", ATT_FORMATS)
CRED_PROTECT_POLICY = TEnumInt("ctap2::credential_management::CredentialProtectionPolicy", CRED_PROTECT)

# GetInfo options (CTAP 2.1 §6.4 option IDs), in the specification's table order
CTAP_OPTIONS = TStruct("ctapoptions", "ctap2::get_info::CtapOptions", [
    F("ep", "ep", TBool(), feature=GIF),
    F("rk", "rk", TBool(), required=True),
    F("up", "up", TBool(), required=True),
    F("uv", "uv", TBool()),
    F("plat", "plat", TBool()),
    F("uvAcfg", "uv_acfg", TBool(), feature=GIF),
    F("alwaysUv", "always_uv", TBool(), feature=GIF),
    F("credMgmt", "cred_mgmt", TBool()),
    F("authnrCfg", "authnr_cfg", TBool(), feature=GIF),
    F("bioEnroll", "bio_enroll", TBool(), feature=GIF),
    F("clientPin", "client_pin", TBool()),
    F("largeBlobs", "large_blobs", TBool()),
    F("uvBioEnroll", "uv_bio_enroll", TBool(), feature=GIF),
    F("pinUvAuthToken", "pin_uv_auth_token", TBool()),
    F("setMinPINLength", "set_min_pin_length", TBool(), feature=GIF),
    F("makeCredUvNotRqd", "make_cred_uv_not_rqd", TBool(), feature=GIF),
    F("credentialMgmtPreview", "credential_mgmt_preview", TBool(), feature=GIF),
    F("userVerificationMgmtPreview", "user_verification_mgmt_preview", TBool(), feature=GIF),
    F("noMcGaPermissionsWithClientPin", "no_mc_ga_permissions_with_client_pin", TBool(), feature=GIF),
], ctor=("default",))

CERTIFICATIONS = TStruct("certs", "ctap2::get_info::Certifications", [
    F("FIDO", "fido", TUInt("u8")),
    F("CC-EAL", "cc_eal", TUInt("u8")),
    F("FIPS-CMVP-2", "fips_cmpv2", TUInt("u8")),
    F("FIPS-CMVP-3", "fips_cmpv3", TUInt("u8")),
    F("FIPS-CMVP-2-PHY", "fips_cmpv2_phy", TUInt("u8")),
    F("FIPS-CMVP-3-PHY", "fips_cmpv3_phy", TUInt("u8")),
], ctor=("decode",))
CERTIFICATIONS.feature = GIF

GI_RESP = TStruct("gi", "ctap2::get_info::Response", [
    F(0x01, "versions", TList(VERSION, 4), required=True),
    F(0x02, "extensions", TList(EXTENSION, 4)),
    F(0x03, "aaguid", TBytes("hl", 16, dlen=16), required=True),
    F(0x04, "options", CTAP_OPTIONS),
    F(0x05, "max_msg_size", TUInt("usize")),
    F(0x06, "pin_protocols", TList(TUInt("u8"), 2)),
    F(0x07, "max_creds_in_list", TUInt("usize")),
    F(0x08, "max_cred_id_length", TUInt("usize")),
    F(0x09, "transports", TList(TRANSPORT, 4)),
    F(0x0A, "algorithms", TFilteredParams()),
    F(0x0B, "max_serialized_large_blob_array", TUInt("usize")),
    F(0x0C, "force_pin_change", TBool(), feature=GIF),
    F(0x0D, "min_pin_length", TUInt("usize"), feature=GIF),
    F(0x0E, "firmware_version", TUInt("usize"), feature=GIF),
    F(0x0F, "max_cred_blob_length", TUInt("usize"), feature=GIF),
    F(0x10, "max_rpids_for_set_min_pin_length", TUInt("usize"), feature=GIF),
    F(0x11, "preferred_platform_uv_attempts", TUInt("usize"), feature=GIF),
    F(0x12, "uv_modality", TUInt("usize"), feature=GIF),
    F(0x13, "certifications", CERTIFICATIONS, feature=GIF),
    F(0x14, "remaining_discoverable_credentials", TUInt("usize"), feature=GIF),
    F(0x15, "vendor_prototype_config_commands", TUInt("usize"), feature=GIF),
    F(0x16, "attestation_formats", TList(ATT_FORMAT, 2), feature=GIF),
    F(0x17, "uv_count_since_last_pin_entry", TUInt("usize"), feature=GIF),
    F(0x18, "long_touch_for_reset", TBool(), feature=GIF),
], ctor=("builder", "ctap2::get_info::ResponseBuilder", ["versions", "aaguid"]))

CP_RESP = TStruct("cpresp", "ctap2::client_pin::Response", [
    F(0x01, "key_agreement", TCoseKey("ecdh")),
    F(0x02, "pin_token", TBytes("hl", 48, dlen=32)),
    F(0x03, "retries", TUInt("u8", small=8)),
    F(0x04, "power_cycle_state", TBool()),
    F(0x05, "uv_retries", TUInt("u8", small=3)),
], ctor=("default",))

LB_RESP = TStruct("lbresp", "ctap2::large_blobs::Response", [
    F(0x01, "config", TBytes("hl", "{ ctap_types::sizes::LARGE_BLOB_MAX_FRAGMENT_LENGTH }", dlen=17), feature=LB),
], ctor=("default",))


class TAttStmt(T):
    """attStmt: "none" -> {} ; "packed" -> {alg, sig, [x5c]} (WebAuthn §8.2, §8.7)"""
    name = "attstmt"

    def rust_ty(self):
        return "ctap2::AttestationStatement"

    def make(self, ctx, path):
        shape = ctx.var.choice(path, "packed")
        m = Leaf(shape=shape)
        if shape != "none":
            m.alg = TInt32().make(ctx, path + ".alg")
            m.sig = Leaf(**dict(zip(("var", "ex"), ctx.h.sym_bytes(ctx.var.length(path + ".sig", 70)))))
            m.x5c = None
            if shape == "packed+x5c":
                m.x5c = Leaf(**dict(zip(("var", "ex"), ctx.h.sym_bytes(ctx.var.length(path + ".x5c", 24)))))
        return m

    def cbor(self, m):
        if m.shape == "none":
            return C.Map([])
        ent = [(C.Text("alg"), TInt32().cbor(m.alg)), (C.Text("sig"), C.Bytes(m.sig.ex))]
        if m.x5c:
            ent.append((C.Text("x5c"), C.Array([C.Bytes(m.x5c.ex)])))
        return C.Map(ent)

    def build(self, ctx, m):
        if m.shape == "none":
            return "ctap2::AttestationStatement::None(ctap2::NoneAttestationStatement {})"
        x5c = "None"
        if m.x5c:
            v = ctx.h.fresh("x5c")
            ctx.h.add("let mut %s = ctap_types::Vec::<ctap_types::Bytes<1024>, 1>::new();" % v)
            ctx.h.add("%s.push(ctap_types::Bytes::<1024>::from_slice(&%s).unwrap()).ok().unwrap();" % (v, m.x5c.var))
            x5c = "Some(%s)" % v
        return ("ctap2::AttestationStatement::Packed(ctap2::PackedAttestationStatement { alg: %s, "
                "sig: ctap_types::Bytes::<77>::from_slice(&%s).unwrap(), x5c: %s })"
                % (TInt32().build(ctx, m.alg), m.sig.var, x5c))


MC_RESP = TStruct("mcresp", "ctap2::make_credential::Response", [
    F(0x01, "fmt", ATT_FORMAT, required=True),
    F(0x02, "auth_data", TBytes("hl", 676, dlen=37), required=True),
    F(0x03, "att_stmt", TAttStmt()),
    F(0x04, "ep_att", TBool()),
    F(0x05, "large_blob_key", TBytes("ba", exact=32)),
    # make_credential::UnsignedExtensionOutputs is #[non_exhaustive] with neither Default nor Deserialize: no
    # application can construct one, so member 0x06 can never be set ("private" = never present)
    F(0x06, "unsigned_extension_outputs", None, private=True),
], ctor=("builder", "ctap2::make_credential::ResponseBuilder", ["fmt", "auth_data"]))

GA_RESP = TStruct("garesp", "ctap2::get_assertion::Response", [
    F(0x01, "credential", DESC, required=True),
    F(0x02, "auth_data", TBytes("hl", 676, dlen=37), required=True),
    F(0x03, "signature", TBytes("hl", 77, dlen=70), required=True),
    F(0x04, "user", USER),
    F(0x05, "number_of_credentials", TUInt("u32")),
    F(0x06, "user_selected", TBool()),
    F(0x07, "large_blob_key", TBytes("ba", exact=32)),
    F(0x08, "unsigned_extension_outputs", TUnitMap("ctap2::get_assertion::UnsignedExtensionOutputs")),
    F(0x09, "ep_att", TBool()),
    F(0x0A, "att_stmt", TAttStmt()),
], ctor=("builder", "ctap2::get_assertion::ResponseBuilder", ["credential", "auth_data", "signature"]))


class TAnyCose(T):
    """cosey::PublicKey: one of the four kinds, chosen by the variation"""
    name = "publickey"
    KINDS = {"p256": "P256Key", "ecdh": "EcdhEsHkdf256Key", "ed25519": "Ed25519Key", "totp": "TotpKey"}

    def rust_ty(self):
        return "cosey::PublicKey"

    def make(self, ctx, path):
        kind = ctx.var.choice(path, "p256")
        t = TCoseKey(kind, self.KINDS[kind])
        m = t.make(ctx, path)
        m.t = t
        return m

    def cbor(self, m):
        return m.t.cbor(m)

    def build(self, ctx, m):
        return m.t.build(ctx, m)


CM_RESP = TStruct("cmresp", "ctap2::credential_management::Response", [
    F(0x01, "existing_resident_credentials_count", TUInt("u32")),
    F(0x02, "max_possible_remaining_residential_credentials_count", TUInt("u32")),
    F(0x03, "rp", RP),
    F(0x04, "rp_id_hash", TBytes("ba", exact=32)),
    F(0x05, "total_rps", TUInt("u32")),
    F(0x06, "user", USER),
    F(0x07, "credential_id", DESC),
    F(0x08, "public_key", TAnyCose()),
    F(0x09, "total_credentials", TUInt("u32")),
    F(0x0A, "cred_protect", CRED_PROTECT_POLICY),
    F(0x0B, "large_blob_key", TBytes("ba", exact=32)),
    F(0x0C, "third_party_payment", TBool(), feature=TPP),
], ctor=("default",))

RESPONSES = {
    "GetInfo": GI_RESP, "MakeCredential": MC_RESP, "GetAssertion": GA_RESP, "GetNextAssertion": GA_RESP,
    "ClientPin": CP_RESP, "CredentialManagement": CM_RESP, "LargeBlobs": LB_RESP,
}

# ------------------------------------------------------------------ status codes (CTAP 2.1 §8.2)
STATUS = {
    "Success": 0x00, "InvalidCommand": 0x01, "InvalidParameter": 0x02, "InvalidLength": 0x03,
    "InvalidSeq": 0x04, "Timeout": 0x05, "ChannelBusy": 0x06, "LockRequired": 0x0A,
    "InvalidChannel": 0x0B, "CborUnexpectedType": 0x11, "InvalidCbor": 0x12, "MissingParameter": 0x14,
    "LimitExceeded": 0x15, "UnsupportedExtension": 0x16, "FingerprintDatabaseFull": 0x17,
    "LargeBlobStorageFull": 0x18, "CredentialExcluded": 0x19, "Processing": 0x21,
    "InvalidCredential": 0x22, "UserActionPending": 0x23, "OperationPending": 0x24,
    "NoOperations": 0x25, "UnsupportedAlgorithm": 0x26, "OperationDenied": 0x27, "KeyStoreFull": 0x28,
    "NotBusy": 0x29, "NoOperationPending": 0x2A, "UnsupportedOption": 0x2B, "InvalidOption": 0x2C,
    "KeepaliveCancel": 0x2D, "NoCredentials": 0x2E, "UserActionTimeout": 0x2F, "NotAllowed": 0x30,
    "PinInvalid": 0x31, "PinBlocked": 0x32, "PinAuthInvalid": 0x33, "PinAuthBlocked": 0x34,
    "PinNotSet": 0x35, "PinRequired": 0x36, "PinPolicyViolation": 0x37, "PinTokenExpired": 0x38,
    "RequestTooLarge": 0x39, "ActionTimeout": 0x3A, "UpRequired": 0x3B, "UvBlocked": 0x3C,
    "IntegrityFailure": 0x3D, "InvalidSubcommand": 0x3E, "UvInvalid": 0x3F,
    "UnauthorizedPermission": 0x40, "Other": 0x7F, "SpecLast": 0xDF, "ExtensionFirst": 0xE0,
    "ExtensionLast": 0xEF, "VendorFirst": 0xF0, "VendorLast": 0xFF,
}
