"""Generators for request-decoding harnesses (C01 and the properties that reuse its templates)."""

from . import cbor as C
from .hb import Harness
from .types import Ctx, Variation
from . import spec


def fsa_for(n):
    return None if n <= 64 else n + 8


def build_request(h, cmd, var):
    """declare symbolic contents, return (model, schema, variant, msg byte exprs)"""
    schema, variant = spec.REQUESTS[cmd]
    ctx = Ctx(h, var)
    m = schema.make(ctx, schema.name)
    node = schema.cbor(m)
    msg = [cmd] + C.encode(node)
    h.requires = tuple(sorted(set(h.requires) | ctx.requires))
    h.sample = "%02x %s" % (cmd, node.describe())
    return ctx, m, schema, variant, msg


def decode_harness(name, prop, cmd, var, desc, tiers=("quick", "thorough"), timeout=900, extra_unwind=0,
                   via="request"):
    """via="request": through ctap2::Request::deserialize (command switch included);
    via="direct": cbor_deserialize::<T> on the parameter map, the exact call the switch arm makes"""
    h = Harness(name, prop, desc, tiers=tiers, timeout=timeout)
    ctx, m, schema, variant, msg = build_request(h, cmd, var)
    h.add(*h.array_literal("msg", msg))
    if via == "request":
        h.add("let r = Request::deserialize(&msg);")
        h.add("match r {")
        h.add("    Ok(Request::%s(req)) => {" % variant)
    else:
        h.add("let r: Result<%s, _> = cbor_deserialize(&msg[1..]);" % schema.rust)
        h.add("match r {")
        h.add("    Ok(req) => {")
    for l in schema.check(ctx, "req", m):
        h.add("        " + l)
    h.add('        kani::cover!(true, "request decoded");')
    h.add("    }")
    h.add('    _ => assert!(false, "well-formed request must decode to the %s variant"),' % variant)
    h.add("};")
    h.fsa = fsa_for(len(msg))
    h.unwind = max(h.maxlen, 32) + 4 + extra_unwind
    h.bounds = {"message_bytes": len(msg), "unwind": h.unwind, "command": "0x%02x" % cmd, "entry": via,
                "symbolic": "contents of every bytes/text member, integer arguments within head class %s, booleans" % var.intclass}
    return h


def nested_harness(name, prop, schema, var, desc, tiers=("quick", "thorough"), timeout=900):
    """stand-alone decode of a nested public type: cbor_deserialize::<T>(bytes)"""
    h = Harness(name, prop, desc, tiers=tiers, timeout=timeout)
    ctx = Ctx(h, var)
    m = schema.make(ctx, schema.name)
    node = schema.cbor(m)
    msg = C.encode(node)
    h.requires = tuple(sorted(ctx.requires))
    h.sample = node.describe()
    h.add(*h.array_literal("msg", msg))
    h.add("let r: Result<(%s, &[u8]), _> = ctap_types::serde::de::take_from_bytes(&msg);" % schema.rust)
    h.add("match r {")
    h.add("    Ok((val, rest)) => {")
    h.add('        assert!(rest.is_empty(), "the decoder must consume exactly the value (nothing left unread, nothing swallowed)");')
    for l in schema.check(ctx, "val", m):
        h.add("        " + l)
    h.add('        kani::cover!(true, "value decoded");')
    h.add("    }")
    h.add('    _ => assert!(false, "well-formed %s must decode"),' % schema.name)
    h.add("};")
    h.fsa = fsa_for(len(msg))
    h.unwind = max(h.maxlen, 32) + 4
    h.bounds = {"message_bytes": len(msg), "unwind": h.unwind, "type": schema.rust}
    return h
