"""cargo-kani driver: builds the harness crate against /repo's *current working tree* (path
dependency), runs the selected harnesses, parses per-harness verdicts, replays
counterexamples natively."""

import fcntl
import hashlib
import json
import os
import re
import shutil
import signal
import subprocess
import threading
import time

ROOT = os.path.dirname(os.path.dirname(os.path.abspath(__file__)))
HARNESS = os.path.join(ROOT, "harness")
WORK = os.path.join(ROOT, ".work")
GEN = os.path.join(HARNESS, "src", "gen")
WIRE = ("get-info-full", "large-blobs", "third-party-payment")

ENV = dict(os.environ)
ENV.update({"CARGO_NET_OFFLINE": "true", "CARGO_TERM_COLOR": "never", "RUST_BACKTRACE": "0"})

MEM_PER_PROC_KB = int(os.environ.get("VK_MEM_PER_PROC_GB", "14")) * 1024 * 1024
MEM_TOTAL_KB = int(os.environ.get("VK_MEM_TOTAL_GB", "50")) * 1024 * 1024


def cfg_name(cfg):
    return "default" if not cfg else "+".join(sorted(cfg))


def target_dir(cfg):
    h = hashlib.sha1(cfg_name(cfg).encode()).hexdigest()[:8]
    return os.path.join(WORK, "t-" + h)


class Watchdog(threading.Thread):
    """kills cbmc processes that exceed the memory budget (reported as inconclusive, never as
    success)"""

    def __init__(self, root_pid):
        super().__init__(daemon=True)
        self.root_pid = root_pid
        self.stop = False
        self.killed = []

    def descendants(self):
        out = subprocess.run(["ps", "-eo", "pid,ppid,rss,comm"], capture_output=True, text=True).stdout
        rows = []
        for l in out.splitlines()[1:]:
            p = l.split(None, 3)
            if len(p) == 4:
                rows.append((int(p[0]), int(p[1]), int(p[2]), p[3]))
        kids = {}
        for pid, ppid, rss, comm in rows:
            kids.setdefault(ppid, []).append((pid, rss, comm))
        res, stack = [], [self.root_pid]
        while stack:
            x = stack.pop()
            for pid, rss, comm in kids.get(x, []):
                res.append((pid, rss, comm))
                stack.append(pid)
        return res

    def run(self):
        while not self.stop:
            time.sleep(3)
            try:
                procs = [(p, r) for p, r, c in self.descendants() if c.strip().startswith("cbmc")]
            except Exception:
                continue
            tot = sum(r for _, r in procs)
            for pid, rss in procs:
                if rss > MEM_PER_PROC_KB:
                    self.kill(pid, rss)
            if tot > MEM_TOTAL_KB and procs:
                pid, rss = max(procs, key=lambda x: x[1])
                self.kill(pid, rss)

    def kill(self, pid, rss):
        try:
            os.kill(pid, signal.SIGKILL)
            self.killed.append((pid, rss))
        except OSError:
            pass


RE_CHECKING = re.compile(r"^(?:Thread (\d+): )?Checking harness ([\w:]+)\.\.\.")
RE_THREAD = re.compile(r"^Thread (\d+): ?(.*)$")
RE_FAILED = re.compile(r"\*\* (\d+) of (\d+) failed")
RE_COVER = re.compile(r"\*\* (\d+) of (\d+) cover properties satisfied")
RE_TIME = re.compile(r"Verification Time: ([0-9.]+)s")


def parse_output(text):
    """returns {harness: {status, checks, failed, cover_sat, cover_total, time}}"""
    res = {}
    cur_by_thread = {}
    cur = None
    for line in text.splitlines():
        m = RE_CHECKING.match(line)
        if m:
            th, name = m.group(1), m.group(2)
            res[name] = {"status": "noresult", "checks": 0, "failed": 0, "cover_sat": 0, "cover_total": 0,
                         "time": 0.0, "notes": []}
            if th is not None:
                cur_by_thread[th] = name
            cur = name
            continue
        m = RE_THREAD.match(line)
        if m:
            th = m.group(1)
            cur = cur_by_thread.get(th, cur)
            line = m.group(2)
        if cur is None or cur not in res:
            continue
        r = res[cur]
        m = RE_FAILED.search(line)
        if m:
            r["failed"], r["checks"] = int(m.group(1)), int(m.group(2))
        m = RE_COVER.search(line)
        if m:
            r["cover_sat"], r["cover_total"] = int(m.group(1)), int(m.group(2))
        if "VERIFICATION:- SUCCESSFUL" in line:
            r["status"] = "success"
        elif "VERIFICATION:- FAILED" in line:
            r["status"] = "failed" if r["checks"] > 0 else "error"
        m = RE_TIME.search(line)
        if m:
            r["time"] = float(m.group(1))
        if "CBMC timed out" in line or "timed out" in line.lower():
            r["notes"].append("timeout")
            if r["status"] in ("noresult", "error"):
                r["status"] = "timeout"
        if "Status: ERROR" in line or "out of memory" in line.lower() or "CBMC failed" in line:
            r["notes"].append(line.strip()[:200])
    return res


def run_group(prop, cfg, names, fsa=None, unwindset=None, jobs=16, timeout=900, log=None, extra_features=()):
    """One cargo-kani invocation: feature configuration `cfg`, harnesses `names` (full paths)."""
    os.makedirs(WORK, exist_ok=True)
    td = target_dir(cfg)
    feats = [prop.lower()] + list(cfg) + list(extra_features)
    jobs = max(1, min(jobs, len(names)))
    cmd = ["cargo", "kani", "--target-dir", td, "--features", ",".join(feats),
           "-Z", "stubbing", "-Z", "unstable-options", "--exact",
           # Kani's per-assertion reachability covers make CBMC build a trace per SAT iteration
           # (measured: 108 s -> 25 s without them); vacuity is guarded by explicit kani::cover!
           # witnesses in every harness instead.
           "--no-assertion-reach-checks",
           "--harness-timeout", "%ds" % timeout]
    if jobs > 1:
        cmd += ["-j", str(jobs), "--output-format", "terse"]
    else:
        cmd += ["--output-format", "terse"]
    for n in names:
        cmd += ["--harness", n]
    cbmc = []
    if fsa:
        cbmc += ["--max-field-sensitivity-array-size", str(fsa)]
    if unwindset:
        cbmc += ["--unwindset", unwindset]
    if cbmc:
        cmd += ["--cbmc-args"] + cbmc
    t0 = time.time()
    lockf = open(td + ".lock", "w")
    fcntl.flock(lockf, fcntl.LOCK_EX)
    try:
        outpath = os.path.join(WORK, "logs", "run-%d-%d.out" % (os.getpid(), int(time.time() * 1000) % 100000000))
        os.makedirs(os.path.dirname(outpath), exist_ok=True)
        with open(outpath, "w") as of:
            p = subprocess.Popen(cmd, cwd=HARNESS, env=ENV, stdout=of, stderr=subprocess.STDOUT,
                                 text=True, start_new_session=True)
            wd = Watchdog(p.pid)
            wd.start()
            limit = timeout * (2 + len(names) // max(jobs, 1)) + 600
            hit = False
            try:
                p.wait(timeout=limit)
            except subprocess.TimeoutExpired:
                hit = True
            # kill stragglers (cbmc processes Kani abandoned after a harness timeout keep running)
            try:
                os.killpg(p.pid, signal.SIGKILL)
            except OSError:
                pass
            p.wait()
        out = open(outpath).read()
        os.remove(outpath)
        if hit:
            out += "\n[vk] group wall-clock limit hit\n"
        wd.stop = True
    finally:
        fcntl.flock(lockf, fcntl.LOCK_UN)
        lockf.close()
    if log:
        with open(log, "a") as f:
            f.write("$ " + " ".join(cmd) + "\n" + out + "\n")
    res = parse_output(out)
    compile_error = ("error: could not compile" in out or "error[E" in out) and not res
    for n in names:
        if n not in res:
            res[n] = {"status": "compile_error" if compile_error else "noresult", "checks": 0, "failed": 0,
                      "cover_sat": 0, "cover_total": 0, "time": 0.0, "notes": []}
    if wd.killed:
        for n in names:
            if res[n]["status"] in ("noresult", "failed") and res[n]["checks"] == 0:
                res[n]["status"] = "oom"
    return res, out, time.time() - t0, compile_error


RE_TEST = re.compile(r"```\n(.*?)```", re.S)
RE_FAILED_CHECKS = re.compile(r"Failed Checks: (.*)\n File: \"([^\"]*)\", line (\d+), in ([\w:<>{}#, ]+)")


def counterexample(prop, cfg, name, fsa=None, unwindset=None, timeout=1800, log=None):
    """re-run one failing harness with concrete playback; returns (failed_checks, test_src)"""
    td = target_dir(cfg)
    cmd = ["cargo", "kani", "--target-dir", td, "--features", ",".join([prop.lower()] + list(cfg)),
           "-Z", "stubbing", "-Z", "unstable-options", "--exact", "--harness", name,
           "--no-assertion-reach-checks", "--harness-timeout", "%ds" % timeout,
           "-Z", "concrete-playback", "--concrete-playback=print"]
    cbmc = []
    if fsa:
        cbmc += ["--max-field-sensitivity-array-size", str(fsa)]
    if unwindset:
        cbmc += ["--unwindset", unwindset]
    if cbmc:
        cmd += ["--cbmc-args"] + cbmc
    lockf = open(td + ".lock", "w")
    fcntl.flock(lockf, fcntl.LOCK_EX)
    try:
        p = subprocess.run(cmd, cwd=HARNESS, env=ENV, capture_output=True, text=True, timeout=timeout + 900)
        out = p.stdout + p.stderr
    except subprocess.TimeoutExpired as e:
        out = "[vk] counterexample extraction timed out"
    finally:
        fcntl.flock(lockf, fcntl.LOCK_UN)
        lockf.close()
    if log:
        with open(log, "a") as f:
            f.write("$ " + " ".join(cmd) + "\n" + out + "\n")
    checks = [{"desc": m.group(1), "file": m.group(2), "line": int(m.group(3)), "fn": m.group(4).strip()}
              for m in RE_FAILED_CHECKS.finditer(out)]
    tests = RE_TEST.findall(out)
    return checks, tests, out


def native_replay(prop, cfg, tests, release=False, log=None):
    """Run concrete-playback tests natively against the real crate. Returns (reproduced, output).
    reproduced: True if some test fails (panics) natively."""
    os.makedirs(GEN, exist_ok=True)
    with open(os.path.join(GEN, "replay.rs"), "w") as f:
        # harness modules import heapless' `Vec`: name std's explicitly in the generated tests
        f.write("\n".join(t.replace("Vec<Vec<u8>>", "std::vec::Vec<std::vec::Vec<u8>>") for t in tests) + "\n")
    env = dict(ENV)
    env["CARGO_TARGET_DIR"] = os.path.join(WORK, "t-playback")
    cmd = ["cargo", "kani", "playback", "-Z", "concrete-playback",
           "--features", ",".join([prop.lower(), "replay"] + list(cfg))]
    if release:
        cmd.append("--release")
    cmd += ["--", "kani_concrete_playback"]
    lockf = open(env["CARGO_TARGET_DIR"] + ".lock", "w")
    fcntl.flock(lockf, fcntl.LOCK_EX)
    try:
        p = subprocess.run(cmd, cwd=HARNESS, env=env, capture_output=True, text=True, timeout=1800)
    finally:
        fcntl.flock(lockf, fcntl.LOCK_UN)
        lockf.close()
        try:
            os.remove(os.path.join(GEN, "replay.rs"))
        except OSError:
            pass
        open(os.path.join(GEN, "replay.rs"), "w").close()
    out = p.stdout + p.stderr
    if log:
        with open(log, "a") as f:
            f.write("$ " + " ".join(cmd) + "\n" + out + "\n")
    ran = re.search(r"test result: (\w+)\. (\d+) passed; (\d+) failed", out)
    if not ran:
        return None, out
    return int(ran.group(3)) > 0, out
