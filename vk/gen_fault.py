"""Request templates with one structural change applied (fault, unknown member, boundary
length): generators for C04, C05, C06, C12, C13, C14.  The change is applied to the reference
CBOR tree (vk.cbor nodes), never to the crate."""

import copy

from . import cbor as C
from .hb import Harness
from .types import Ctx, Variation
from . import spec
from .gen_req import build_request, fsa_for


# ---------------------------------------------------------------- tree addressing
def key_bytes(k):
    if isinstance(k, C.Node):
        return tuple(k.enc())
    return tuple((C.Text(k) if isinstance(k, str) else C.Int(k)).enc())


def get(node, path):
    for p in path:
        if isinstance(node, C.Map):
            kb = key_bytes(p)
            for k, v in node.entries:
                if tuple(k.enc()) == kb:
                    node = v
                    break
            else:
                raise KeyError(p)
        elif isinstance(node, C.Array):
            node = node.items[p]
        else:
            raise KeyError(p)
    return node


def edit(root, path, fn):
    """returns a deep copy of root in which the node at path is replaced by fn(node)"""
    root = copy.deepcopy(root)
    if not path:
        return fn(root)
    parent = get(root, path[:-1])
    last = path[-1]
    if isinstance(parent, C.Map):
        kb = key_bytes(last)
        for i, (k, v) in enumerate(parent.entries):
            if tuple(k.enc()) == kb:
                parent.entries[i] = (k, fn(v))
                return root
        raise KeyError(last)
    parent.items[last] = fn(parent.items[last])
    return root


def remove_entry(root, path, key):
    root = copy.deepcopy(root)
    m = get(root, path)
    kb = key_bytes(key)
    n = len(m.entries)
    m.entries = [(k, v) for k, v in m.entries if tuple(k.enc()) != kb]
    assert len(m.entries) == n - 1, (path, key)
    return root


def dup_entry(root, path, key):
    root = copy.deepcopy(root)
    m = get(root, path)
    kb = key_bytes(key)
    for i, (k, v) in enumerate(m.entries):
        if tuple(k.enc()) == kb:
            m.entries.insert(i + 1, (copy.deepcopy(k), copy.deepcopy(v)))
            return root
    raise KeyError(key)


def insert_entry(root, path, pos, k, v):
    root = copy.deepcopy(root)
    m = get(root, path)
    m.entries.insert(pos, (k, v))
    return root


def walk(node, path=()):
    """yield (path, node) for every node reachable through map values / array items"""
    yield path, node
    if isinstance(node, C.Map):
        for k, v in node.entries:
            kk = k.enc()
            if all(isinstance(b, int) for b in kk):
                yield from walk(v, path + (KeyRef(k),))
    elif isinstance(node, C.Array):
        for i, it in enumerate(node.items):
            yield from walk(it, path + (i,))


class KeyRef(C.Node):
    """path element carrying a key node"""

    def __init__(self, k):
        self.k = k

    def enc(self):
        return self.k.enc()

    def describe(self):
        return self.k.describe()


def _keytext(p):
    """readable, unique rendering of a path element (the key's own text / number, not just its type)"""
    if isinstance(p, C.Node):
        k = p.k if isinstance(p, KeyRef) else p
        if isinstance(k, C.Bytes) and all(isinstance(b, int) for b in k.content):
            return bytes(k.content).decode("latin1")
        return k.describe()
    return str(p)


def pdesc(path):
    return "/".join(_keytext(p) for p in path) or "<top>"


def pname(path):
    out = []
    for p in path:
        d = _keytext(p)
        out.append("".join(ch if ch.isalnum() else "_" for ch in d.replace("-", "m")))
    return "_".join(out) or "top"


def call_change(change, node, ctx):
    import inspect
    req = [q for q in inspect.signature(change).parameters.values() if q.default is q.empty]
    return change(node, ctx) if len(req) == 2 else change(node)


# ---------------------------------------------------------------- harness shapes
def status_harness(name, prop, cmd, var, change, want, desc, tiers=("quick", "thorough"), timeout=1500, stub="assume",
                   also_not_ok=False):
    """decode the changed message through Request::deserialize and assert the status.
    `change(root_node) -> node`; want: expected status byte (0 = must decode, None = any of the
    three rejection codes or success, i.e. no-panic only)"""
    h = Harness(name, prop, desc, tiers=tiers, timeout=timeout, stub_utf8=stub)
    schema, variant = spec.REQUESTS[cmd]
    ctx = Ctx(h, var)
    m = schema.make(ctx, schema.name)
    node = change(schema.cbor(m))
    body = node if isinstance(node, list) else C.encode(node)
    msg = [cmd] + body
    h.requires = tuple(sorted(set(h.requires) | ctx.requires))
    h.sample = "%02x %s" % (cmd, node.describe() if not isinstance(node, list) else "<raw %d bytes>" % len(body))
    h.add(*h.array_literal("msg", msg))
    h.add("let r = Request::deserialize(&msg);")
    h.add("let st = status(&r);")
    if want is None:
        h.add('assert!(st == 0 || st == 0x01 || st == 0x12 || st == 0x14, "a rejection must use one of the three status codes");')
    else:
        h.add('assert!(st == 0x%02x, "status for this fault must be 0x%02x");' % (want, want))
    h.add('kani::cover!(true, "decoder returned");')
    h.fsa = fsa_for(len(msg))
    h.unwind = max(h.maxlen, 32) + 4
    h.bounds = {"message_bytes": len(msg), "unwind": h.unwind, "expected_status": want}
    return h


def accept_harness(name, prop, cmd, var, change, desc, tiers=("quick", "thorough"), timeout=1500, via="request",
                   stub="assume", patch_model=None, extra_unwind=0):
    """decode the changed message and assert it decodes to the (possibly patched) model"""
    h = Harness(name, prop, desc, tiers=tiers, timeout=timeout, stub_utf8=stub)
    schema, variant = spec.REQUESTS[cmd]
    ctx = Ctx(h, var)
    m = schema.make(ctx, schema.name)
    node = call_change(change, schema.cbor(m), ctx)
    msg = [cmd] + C.encode(node)
    if patch_model:
        patch_model(m)
    h.requires = tuple(sorted(set(h.requires) | ctx.requires))
    h.sample = "%02x %s" % (cmd, node.describe())
    h.add(*h.array_literal("msg", msg))
    if via == "request":
        h.add("let r = Request::deserialize(&msg);")
        h.add("match r {")
        h.add("    Ok(Request::%s(req)) => {" % variant)
    else:
        h.add("let r: Result<%s, _> = cbor_deserialize(&msg[1..]);" % schema.rust)
        h.add("match r {")
        h.add("    Ok(req) => {")
    for l in schema.check(ctx, "req", m):
        h.add("        " + l)
    h.add('        kani::cover!(true, "request decoded");')
    h.add("    }")
    h.add('    _ => assert!(false, "this request must be accepted"),')
    h.add("};")
    h.fsa = fsa_for(len(msg))
    h.unwind = max(h.maxlen, 32) + 4 + extra_unwind
    h.bounds = {"message_bytes": len(msg), "unwind": h.unwind, "entry": via}
    return h


def nested_accept(name, prop, schema, var, change, desc, tiers=("quick", "thorough"), timeout=1500, stub="assume",
                  patch_model=None, expect_status=None, extra_unwind=0):
    """stand-alone nested type: decode changed bytes; accepted (== model) or rejected with status"""
    h = Harness(name, prop, desc, tiers=tiers, timeout=timeout, stub_utf8=stub)
    ctx = Ctx(h, var)
    m = schema.make(ctx, schema.name)
    node = call_change(change, schema.cbor(m), ctx)
    msg = C.encode(node)
    if patch_model:
        patch_model(m)
    h.requires = tuple(sorted(ctx.requires))
    h.sample = node.describe()
    h.add(*h.array_literal("msg", msg))
    if expect_status is None:
        h.add("let r: Result<(%s, &[u8]), _> = ctap_types::serde::de::take_from_bytes(&msg);" % schema.rust)
        h.add("match r {")
        h.add("    Ok((val, rest)) => {")
        h.add('        assert!(rest.is_empty(), "the decoder must consume exactly the value (nothing left unread, nothing swallowed)");')
        for l in schema.check(ctx, "val", m):
            h.add("        " + l)
        h.add('        kani::cover!(true, "value decoded");')
        h.add("    }")
        h.add('    _ => assert!(false, "this value must be accepted"),')
        h.add("};")
    elif expect_status == "any":
        h.add("let r: Result<%s, _> = cbor_deserialize(&msg);" % schema.rust)
        h.add('let st = cbor_status(&r);')
        h.add('assert!(st == 0 || st == 0x12 || st == 0x14, "error or accepted, never a crash");')
        h.add('kani::cover!(true, "decoder returned");')
    else:
        h.add("let r: Result<%s, _> = cbor_deserialize(&msg);" % schema.rust)
        h.add('assert!(cbor_status(&r) == 0x%02x, "status for this input must be 0x%02x");' % (expect_status, expect_status))
        h.add('kani::cover!(true, "decoder returned");')
    h.fsa = fsa_for(len(msg))
    h.unwind = max(h.maxlen, 32) + 4 + extra_unwind
    h.bounds = {"message_bytes": len(msg), "unwind": h.unwind, "type": schema.rust, "expected_status": expect_status}
    return h


# ---------------------------------------------------------------- values of the other data types
def other_type_values(h):
    """one value of each CBOR data type of the property's list, contents symbolic where any"""
    b1v, b1 = h.sym_bytes(2, "wb")
    t1v, t1 = h.sym_ascii(2, "wt")
    return {
        "uint": C.UInt(1), "nint": C.NInt(0), "bytes": C.Bytes(b1), "text": C.Text(t1),
        "array": C.Array([]), "map": C.Map([]), "bool": C.Bool(True),
    }


def node_type(n):
    if isinstance(n, (C.UInt, C.SymInt)) and getattr(n, "major", 0) == 0:
        return "uint"
    if isinstance(n, C.NInt) or (isinstance(n, C.SymInt) and n.major == 1):
        return "nint"
    if isinstance(n, C.Bytes):
        return "bytes" if n.major == C.MT_BYTES else "text"
    if isinstance(n, C.Array):
        return "array"
    if isinstance(n, C.Map):
        return "map"
    if isinstance(n, C.Bool):
        return "bool"
    return "other"
