"""Reference CBOR encoder over a small AST whose leaves may be *symbolic*.

This is the oracle side of the harness generator: it is written from RFC 8949 / the CTAP2
canonical CBOR rules and never reads /repo.  `encode(node)` returns a list of "byte
expressions": a Python int (a constant byte) or a str (a Rust expression of type u8 that
refers to a `kani::any()` variable declared by the harness).  The *layout* (heads, lengths,
keys) is always concrete; only argument bytes / contents / booleans may be symbolic
(DESIGN.md section 2, lesson 1).
"""

MT_UINT, MT_NINT, MT_BYTES, MT_TEXT, MT_ARRAY, MT_MAP, MT_TAG, MT_SIMPLE = range(8)


def head(major, arg, force_class=None):
    """Shortest-form head for (major, arg) unless force_class (0,1,2,4,8 extra bytes)."""
    assert arg >= 0
    if force_class is None:
        if arg < 24:
            force_class = 0
        elif arg < 0x100:
            force_class = 1
        elif arg < 0x10000:
            force_class = 2
        elif arg < 0x100000000:
            force_class = 4
        else:
            force_class = 8
    if force_class == 0:
        assert arg < 24
        return [(major << 5) | arg]
    ai = {1: 24, 2: 25, 4: 26, 8: 27}[force_class]
    return [(major << 5) | ai] + list(arg.to_bytes(force_class, "big"))


CLASS_RANGE = {
    0: (0, 23),
    1: (24, 0xFF),
    2: (0x100, 0xFFFF),
    4: (0x10000, 0xFFFFFFFF),
    8: (0x100000000, 0xFFFFFFFFFFFFFFFF),
}


class Node:
    def enc(self):
        raise NotImplementedError

    def describe(self):
        return type(self).__name__


class UInt(Node):
    def __init__(self, v, force_class=None):
        self.v = v
        self.force_class = force_class

    def enc(self):
        return head(MT_UINT, self.v, self.force_class)

    def describe(self):
        return str(self.v)


class NInt(Node):
    """negative integer -1-n"""

    def __init__(self, n, force_class=None):
        self.n = n
        self.force_class = force_class

    def enc(self):
        return head(MT_NINT, self.n, self.force_class)

    def describe(self):
        return str(-1 - self.n)


def Int(v):
    return UInt(v) if v >= 0 else NInt(-1 - v)


class SymInt(Node):
    """Integer whose argument is symbolic inside one head class.

    var: Rust variable (u64-convertible) holding the *argument* (for negative ints the
    value is -1-arg); cls: number of argument bytes (1,2,4,8); major 0 or 1."""

    def __init__(self, var, cls, major=MT_UINT):
        assert cls in (1, 2, 4, 8)
        self.var, self.cls, self.major = var, cls, major

    def enc(self):
        ai = {1: 24, 2: 25, 4: 26, 8: 27}[self.cls]
        out = [(self.major << 5) | ai]
        for k in reversed(range(self.cls)):
            out.append("((%s as u64) >> %d) as u8" % (self.var, 8 * k))
        return out

    def describe(self):
        return "%sint(%s: %d-byte arg)" % ("u" if self.major == 0 else "n", self.var, self.cls)


class Bytes(Node):
    def __init__(self, content, force_class=None, major=MT_BYTES):
        self.content = list(content)
        self.force_class = force_class
        self.major = major

    def enc(self):
        return head(self.major, len(self.content), self.force_class) + self.content

    def describe(self):
        return "%s[%d]" % ("bytes" if self.major == MT_BYTES else "text", len(self.content))


def Text(content, force_class=None):
    if isinstance(content, str):
        content = list(content.encode())
    return Bytes(content, force_class, MT_TEXT)


class Bool(Node):
    def __init__(self, v):
        self.v = v  # True/False or Rust bool expression (str)

    def enc(self):
        if isinstance(self.v, str):
            return ["0xf4u8 | (%s as u8)" % self.v]
        return [0xF5 if self.v else 0xF4]

    def describe(self):
        return "bool(%s)" % self.v


class Null(Node):
    def enc(self):
        return [0xF6]


class Raw(Node):
    """verbatim bytes (fault injection, exotic items)"""

    def __init__(self, content, what="raw"):
        self.content = list(content)
        self.what = what

    def enc(self):
        return list(self.content)

    def describe(self):
        return self.what


class Array(Node):
    def __init__(self, items, force_class=None, count=None):
        self.items = list(items)
        self.force_class = force_class
        self.count = count

    def enc(self):
        out = head(MT_ARRAY, len(self.items) if self.count is None else self.count, self.force_class)
        for it in self.items:
            out += it.enc()
        return out

    def describe(self):
        return "[" + ", ".join(i.describe() for i in self.items) + "]"


class Map(Node):
    """Map with entries in the order given (use `canonical()` to sort)."""

    def __init__(self, entries, force_class=None, count=None):
        self.entries = list(entries)
        self.force_class = force_class
        self.count = count

    def enc(self):
        out = head(MT_MAP, len(self.entries) if self.count is None else self.count, self.force_class)
        for k, v in self.entries:
            out += k.enc()
            out += v.enc()
        return out

    def canonical(self):
        """CTAP2 canonical order: keys sorted by (major type, encoded length, bytes)."""

        def keyf(kv):
            e = kv[0].enc()
            assert all(isinstance(b, int) for b in e), "keys must be concrete"
            return (e[0] >> 5, len(e), e)

        return Map(sorted(self.entries, key=keyf), self.force_class, self.count)

    def describe(self):
        return "{" + ", ".join("%s: %s" % (k.describe(), v.describe()) for k, v in self.entries) + "}"


class Tag(Node):
    def __init__(self, tag, item):
        self.tag, self.item = tag, item

    def enc(self):
        return head(MT_TAG, self.tag) + self.item.enc()


def encode(node):
    return node.enc()


def is_concrete(bs):
    return all(isinstance(b, int) for b in bs)


# ---------------------------------------------------------------------------------------
# canonical-form validator over *concrete layouts with symbolic holes*: used by the C03
# generator at generation time on the EXPECTED encoding (sanity of the oracle itself), and
# mirrored in Rust (harness/src/canon.rs) for the bytes the crate actually produced.


def check_canonical(bs, pos=0, depth=0):
    """Validate one item starting at pos of a concrete byte list; returns end position.
    Raises ValueError when not CTAP2-canonical."""
    if depth > 8:
        raise ValueError("too deep")
    if pos >= len(bs):
        raise ValueError("truncated")
    ib = bs[pos]
    if isinstance(ib, str):
        if ib.startswith("0xf4u8 |"):   # symbolic boolean: false/true
            return pos + 1
        raise ValueError("symbolic head byte")
    major, ai = ib >> 5, ib & 31
    if isinstance(ib, str):
        if ib.startswith("0xf4u8 |"):   # symbolic boolean: false/true
            return pos + 1
        raise ValueError("symbolic head byte")
    if major == 7:
        if ai in (20, 21, 22):
            return pos + 1
        raise ValueError("simple/float %d not allowed" % ai)
    if major == 6:
        raise ValueError("tag")
    if ai < 24:
        arg, p = ai, pos + 1
    elif ai in (24, 25, 26, 27):
        n = {24: 1, 25: 2, 26: 4, 27: 8}[ai]
        if pos + 1 + n > len(bs):
            raise ValueError("truncated head")
        argb = bs[pos + 1 : pos + 1 + n]
        if all(isinstance(x, int) for x in argb):
            arg = int.from_bytes(bytes(argb), "big")
            lo = CLASS_RANGE[n][0]
            if arg < lo:
                raise ValueError("non-minimal head")
        else:
            # symbolic argument: the harness assumes it lies inside this head class, i.e. minimal
            if major not in (0, 1):
                raise ValueError("symbolic length")
            arg = None
        p = pos + 1 + n
    else:
        raise ValueError("indefinite/reserved")
    if major in (0, 1):
        return p
    if major in (2, 3):
        if p + arg > len(bs):
            raise ValueError("truncated string")
        return p + arg
    if major == 4:
        for _ in range(arg):
            p = check_canonical(bs, p, depth + 1)
        return p
    if major == 5:
        prev = None
        for _ in range(arg):
            ks = p
            p = check_canonical(bs, p, depth + 1)
            key = bs[ks:p]
            if not all(isinstance(x, int) for x in key):
                raise ValueError("symbolic map key")
            k = (key[0] >> 5, len(key), key)
            if prev is not None and not (prev < k):
                raise ValueError("map keys not in canonical order / duplicate")
            prev = k
            p = check_canonical(bs, p, depth + 1)
        return p
    raise ValueError("unreachable")
