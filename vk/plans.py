"""Per-property plans: which harnesses exist, in which tier / feature configuration they run."""

import os
from .kani import GEN
from . import hb

Q, T = "quick", "thorough"
BOTH = (Q, T)


def S(name, desc, tiers=BOTH, requires=(), forbids=(), configs="first", fsa=None, timeout=900,
      expect="pass", bounds=None, unwindset=None, sample=None, sym=None):
    """meta record of a hand-written harness (harness/src/cNN.rs)"""
    return {"name": name, "desc": desc, "tiers": list(tiers), "requires": list(requires),
            "forbids": list(forbids), "configs": configs, "fsa": fsa, "timeout": timeout,
            "expect": expect, "bounds": bounds or {}, "unwindset": unwindset, "sample": sample,
            "symbolic_input_bytes": sym}


def G(h, configs="all"):
    m = h.meta()
    m["configs"] = configs
    return m


def write_gen(prop, harnesses, prelude=""):
    os.makedirs(GEN, exist_ok=True)
    hb.write_module(os.path.join(GEN, prop.lower() + ".rs"), harnesses, prelude)


PLANS = {}
MODULE = {}
INFO = {}


def register(prop, module, info=None):
    def deco(fn):
        PLANS[prop] = fn
        MODULE[prop] = module
        INFO[prop] = info or {}
        return fn
    return deco


# ---------------------------------------------------------------------------------- C11
@register("C11", "c11", {
    "functions": ["ctap_types::ctap2::Operation::try_from(u8)", "u8::from(Operation)", "Operation::into_u8",
                  "VendorOperation::try_from(u8)", "ctap_types::ctap2::Request::deserialize"],
    "bounds": "all 256 command bytes (symbolic u8); pairs of bytes for injectivity (2^16); "
              "Request::deserialize on 1-byte messages for every byte and on 5-byte messages (every "
              "parameter-less / unsupported / unassigned byte followed by 4 fully symbolic bytes)",
    "out": "trailing payloads longer than 4 bytes (the parameter-less arms never read them); payloads after the "
           "parameter-bearing command bytes are C01/C04/C05's subject",
})
def plan_c11(tier, seed):
    return [
        S("c11_table_total_exact", "Operation::try_from recognises exactly the assigned codes + 0x42..=0x7f; round trip", sym=1),
        S("c11_table_injective", "no two distinct bytes map to the same operation", sym=2),
        S("c11_vendor_operation_domain", "VendorOperation::try_from domain 0x40..=0x7f, round trip", sym=1),
        S("c11_deserialize_trailing4", "Request::deserialize on 16 representative command bytes of every class followed by 4 fully symbolic bytes: parameter-less commands decode from the byte alone; unsupported/unassigned => InvalidCommand", sym=4),
        S("c11_deserialize_len1", "Request::deserialize on [b] for symbolic b: all 256 bytes, all arms, empty payload", timeout=1800, sym=1),
        S("c11_preview_alias", "0x41 decodes exactly like 0x0A on a CredentialManagement template with symbolic contents (quick tier: see the 0x41 instances of C01)", tiers=(T,), timeout=1800, sym=34),
        S("c11_deserialize_empty", "empty message => InvalidCbor"),
    ]
