"""Per-property plans: which harnesses exist, in which tier / feature configuration they run."""

import os
from .kani import GEN
from . import hb

Q, T = "quick", "thorough"
BOTH = (Q, T)


def S(name, desc, tiers=BOTH, requires=(), forbids=(), configs="first", fsa=None, timeout=900,
      expect="pass", bounds=None, unwindset=None, sample=None, sym=None):
    """meta record of a hand-written harness (harness/src/cNN.rs)"""
    return {"name": name, "desc": desc, "tiers": list(tiers), "requires": list(requires),
            "forbids": list(forbids), "configs": configs, "fsa": fsa, "timeout": timeout,
            "expect": expect, "bounds": bounds or {}, "unwindset": unwindset, "sample": sample,
            "symbolic_input_bytes": sym}


def G(h, configs="all"):
    m = h.meta()
    m["configs"] = configs
    return m


def write_gen(prop, harnesses, prelude=""):
    os.makedirs(GEN, exist_ok=True)
    hb.write_module(os.path.join(GEN, prop.lower() + ".rs"), harnesses, prelude)


PLANS = {}
MODULE = {}
INFO = {}


def register(prop, module, info=None):
    def deco(fn):
        PLANS[prop] = fn
        MODULE[prop] = module
        INFO[prop] = info or {}
        return fn
    return deco


# ---------------------------------------------------------------------------------- C11
@register("C11", "c11", {
    "functions": ["ctap_types::ctap2::Operation::try_from(u8)", "u8::from(Operation)", "Operation::into_u8",
                  "VendorOperation::try_from(u8)", "ctap_types::ctap2::Request::deserialize"],
    "bounds": "all 256 command bytes (symbolic u8); pairs of bytes for injectivity (2^16); "
              "Request::deserialize on 1-byte messages for every byte and on 5-byte messages (every "
              "parameter-less / unsupported / unassigned byte followed by 4 fully symbolic bytes)",
    "out": "trailing payloads longer than 4 bytes (the parameter-less arms never read them); payloads after the "
           "parameter-bearing command bytes are C01/C04/C05's subject",
})
def plan_c11(tier, seed):
    return [
        S("c11_table_total_exact", "Operation::try_from recognises exactly the assigned codes + 0x42..=0x7f; round trip", sym=1),
        S("c11_table_injective", "no two distinct bytes map to the same operation", sym=2),
        S("c11_vendor_operation_domain", "VendorOperation::try_from domain 0x40..=0x7f, round trip", sym=1),
        S("c11_deserialize_trailing4", "Request::deserialize on 16 representative command bytes of every class followed by 4 fully symbolic bytes: parameter-less commands decode from the byte alone; unsupported/unassigned => InvalidCommand", sym=4),
        S("c11_deserialize_len1", "Request::deserialize on [b] for symbolic b: all 256 bytes, all arms, empty payload", timeout=1800, sym=1),
        S("c11_preview_alias", "0x41 decodes exactly like 0x0A on a CredentialManagement template with symbolic contents (quick tier: see the 0x41 instances of C01)", tiers=(T,), timeout=1800, sym=34),
        S("c11_deserialize_empty", "empty message => InvalidCbor"),
    ]


# ---------------------------------------------------------------------------------- C01
def opt_fields(schema):
    return [f.rust for f in schema.fields if not f.required and not f.private]


@register("C01", "g01", {
    "functions": ["ctap_types::ctap2::Request::deserialize", "serde-indexed DeserializeIndexed expansions of the five request structs",
                  "serde derive expansions of the nested webauthn/ctap2 types", "cbor_smol::de::*", "cosey RawPublicKey::deserialize",
                  "webauthn::deserialize_from_str_and_truncate / _skip_if_too_long", "FilteredPublicKeyCredentialParameters::deserialize",
                  "AttestationFormatsPreference::deserialize"],
})
def plan_c01(tier, seed):
    from .gen_req import decode_harness, nested_harness
    from .types import Variation
    from . import spec
    hs = []
    metas = []

    def add(h, configs="all"):
        hs.append(h)
        metas.append(G(h, configs))

    thorough = tier == T
    for cmd, tag in ((0x0C, "lb"), (0x06, "cp"), (0x0A, "cm"), (0x41, "cmpre"), (0x02, "ga"), (0x01, "mc")):
        schema, variant = spec.REQUESTS[cmd]
        opts = opt_fields(schema)
        # whole message through Request::deserialize: no optional parameter / all of them.
        # Integers are small constants here (a symbolic integer in the middle of a large
        # template makes CBMC lose the decoder position, DESIGN.md section 2); their classes are
        # covered by the single-parameter instances below.
        for mname, pres in (("none", []), ("full", opts)):
            var = Variation(present={schema.name: pres}, default_present="all", intclass=0, seed=seed)
            add(decode_harness("c01_%s_%s" % (tag, mname), "C01", cmd, var,
                               "%s (0x%02x) through Request::deserialize, optional parameters: %s; all bytes/text contents symbolic"
                               % (variant, cmd, ",".join(pres) or "none"), via="request", timeout=1500))
        if cmd == 0x41:
            continue
        classes = (1, 2, 4) if thorough else ((2,) if seed % 2 == 0 else (4,))
        for o in opts:
            f = schema.field(o)
            is_int = f.ty.name in ("u8", "u32")
            for cls in (classes if is_int else classes[:1]):
                var = Variation(present={schema.name: [o]}, default_present="all", intclass=cls, seed=seed)
                add(decode_harness("c01_%s_only_%s_c%d" % (tag, o, cls), "C01", cmd, var,
                                   "%s parameter map with only optional parameter %s (its nested members all present); "
                                   "integers symbolic over the whole %d-byte-argument head class" % (variant, o, cls),
                                   via="direct", timeout=1500), configs="all" if thorough else "rich")
        if thorough:
            # adjacent pairs of optional parameters (a value landing in its neighbour)
            for a, b in zip(opts, opts[1:]):
                var = Variation(present={schema.name: [a, b]}, default_present="none", intclass=0, seed=seed)
                add(decode_harness("c01_%s_pair_%s__%s" % (tag, a, b), "C01", cmd, var,
                                   "%s with optional parameters %s and %s only (nested optional members absent)" % (variant, a, b),
                                   via="direct", timeout=1500), configs="rich")
    for schema in (spec.RP, spec.USER, spec.AUTH_OPTIONS, spec.MC_EXT, spec.GA_EXT_IN, spec.CM_PARAMS, spec.HMAC_INPUT,
                   spec.DESC_REF):
        opts = opt_fields(schema)
        sets = [("none", [])] + [("only_" + o, [o]) for o in opts]
        if thorough and len(opts) > 1:
            sets.append(("full", opts))
        for mname, pres in sets:
            for flip in ((0, 1) if thorough else (seed % 2,)):
                var = Variation(present={schema.name: pres}, default_present="all", intclass=1, seed=seed, boolflip=flip)
                add(nested_harness("c01_n_%s_%s_f%d" % (schema.name, mname, flip), "C01", schema, var,
                                   "stand-alone %s with optional members: %s" % (schema.name, ",".join(pres) or "none")),
                    configs="all" if thorough else "rich")
    # rp: legacy alias `url` for `icon`
    write_gen("C01", hs)
    return metas


# ---------------------------------------------------------------------------------- C18
@register("C18", "c18", {
    "functions": ["TryFrom<&str>/From<..> for &str of get_info::{Version, Extension, Transport} and AttestationStatementFormat",
                  "serde Deserialize/Serialize of those enums (into/try_from = &str) through cbor_smol",
                  "serde_repr Deserialize/Serialize of PinV1Subcommand, credential_management::Subcommand, CredentialProtectionPolicy",
                  "TryFrom<u8> for CredentialProtectionPolicy, ctap1::ControlByte", "client_pin::Permissions::from_bits", "ctap2::Error discriminants"],
    "bounds": "string enums: ALL well-formed UTF-8 strings of <= 19 bytes (symbolic bytes and length); CBOR text items with every "
              "length that has a spelling (3,4,6,8,11,12,17) and fully symbolic contents incl. ill-formed UTF-8; numeric enums: a "
              "fully symbolic CBOR item of <= 9 bytes (all head forms: all values < 2^64, all non-minimal forms, all majors); all 256 "
              "bytes for the TryFrom<u8> / bit tables; every status constant",
    "out": "strings longer than 19 bytes (longest spelling is 17); CBOR text items of lengths without any spelling",
})
def plan_c18(tier, seed):
    hs = [
        S("c18_version_all_strings", "Version::try_from on every UTF-8 string <= 19 bytes", sym=20),
        S("c18_extension_all_strings", "Extension::try_from on every UTF-8 string <= 19 bytes", sym=20),
        S("c18_transport_all_strings", "Transport::try_from on every UTF-8 string <= 19 bytes", sym=20),
        S("c18_attfmt_all_strings", "AttestationStatementFormat::try_from on every UTF-8 string <= 19 bytes", sym=20),
        S("c18_string_enums_into", "every variant -> its spelling -> same variant"),
        S("c18_spellings_distinct", "oracle tables pairwise distinct"),
        S("c18_string_enums_serialize", "cbor_serialize of every string-enum variant"),
        S("c18_pin_subcommand_cbor", "PinV1Subcommand from a fully symbolic CBOR item <= 9 bytes", sym=9),
        S("c18_cm_subcommand_cbor", "credential_management::Subcommand from a fully symbolic CBOR item <= 9 bytes", sym=9),
        S("c18_cred_protect_cbor", "CredentialProtectionPolicy from a fully symbolic CBOR item <= 9 bytes", sym=9),
        S("c18_numeric_enums_serialize", "numeric enums serialise to their number"),
        S("c18_byte_tables", "all 256 bytes through CredentialProtectionPolicy/ControlByte TryFrom<u8>, Permissions::from_bits", sym=1),
        S("c18_status_codes", "every ctap2::Error discriminant equals the CTAP 2.1 status number"),
    ]
    for n in ("version_cbor_len8", "version_cbor_len12", "version_cbor_len6", "extension_cbor_len11", "extension_cbor_len12",
              "extension_cbor_len17", "transport_cbor_len3", "attfmt_cbor_len4", "attfmt_cbor_len6"):
        hs.append(S("c18_" + n, "cbor_deserialize of a text item with fully symbolic contents (valid or not) of that length", sym=int(n.split("len")[1])))
    return hs


# ---------------------------------------------------------------------------------- C08
@register("C08", "c08", {
    "functions": ["<ctap1::Request as TryFrom<iso7816::command::CommandView>>::try_from", "<ctap1::Request as TryFrom<&iso7816::Command<S>>>::try_from (S=64)",
                  "ctap1::ControlByte::try_from(u8)", "iso7816::command::CommandView::try_from(&[u8]) / parse_lengths (real framing layer)"],
    "bounds": "every APDU of <= 76 bytes (all bytes and the length symbolic): complete class x instruction x P1 x P2 space, short and "
              "extended Lc/Le forms, data lengths 0..=69; extended-length templates with data lengths 63,64,65,66 and 318..=321 (key "
              "handles 254/255 and off-by-one), header and every data byte symbolic",
    "out": "data lengths 70..=317 other than the listed ones; APDUs iso7816 itself rejects (reserved class 0xFF, malformed Lc) never reach ctap-types",
})
def plan_c08(tier, seed):
    hs = [S("c08_all_apdus_up_to_76", "all APDUs <= 76 bytes through the real iso7816 framing and ctap1::Request::try_from vs. the U2F decision table", sym=77, timeout=1800),
          S("c08_owned_command_64", "all APDUs <= 74 bytes through Command<64>::try_from and TryFrom<&Command<64>>", sym=75, timeout=1800)]
    for l, t in ((63, BOTH), (64, BOTH), (65, BOTH), (66, (T,)), (318, (T,)), (319, (T,)), (320, (T,)), (321, (T,))):
        hs.append(S("c08_ext_len%d" % l, "extended-length APDU with %d symbolic data bytes, symbolic header" % l, tiers=t, fsa=340, sym=l + 6, timeout=1800))
    return hs


# ---------------------------------------------------------------------------------- C09
@register("C09", "c09", {
    "functions": ["ctap1::Response::serialize::<S>", "ctap1::register::Response::new"],
    "bounds": "registration / authentication / version responses with ALL content bytes, header/presence byte, counter (2^32), "
              "public-key coordinates and pre-existing buffer bytes symbolic; part lengths and buffer capacities enumerated: every "
              "capacity around each part boundary for a 99-byte registration response, empty parts, key handle 254/255, certificate "
              "1024 (thorough tier), signature 71/72, prefill 0/2/3/whole",
    "out": "the 1418-byte maximal response and capacity 2048 (measured: > 50 min per instance, not run); part-length triples other than the enumerated ones (the encoder is a chain of length-uniform push/extend calls); buffer "
           "contents after a failed call (unspecified by the property)",
})
def plan_c09(tier, seed):
    small = ["s0", "s1", "s65", "s66", "s67", "s74", "s75", "s90", "s91", "s98", "s99", "s100", "s102_p3", "s101_p3", "s99_p99",
             "empty_parts", "empty_parts_short"]
    hs = [S("c09_reg_" + n, "registration response (kh 8, cert 16, sig 8 unless named) into capacity/prefill " + n, sym=100) for n in small]
    for n, t in (("kh255", BOTH), ("kh255_short", BOTH), ("kh254", (T,))):
        hs.append(S("c09_reg_" + n, "registration response with a %s key handle" % n, tiers=t, fsa=420, sym=400, timeout=2400))
    for n, t in (("cert1024", (T,)), ("cert1024_short", (T,))):
        hs.append(S("c09_reg_" + n, "registration response with the maximal certificate: " + n, tiers=t, fsa=1300, sym=1200, timeout=3600))
    for n in ("s0", "s1", "s4", "s5", "s76", "s77", "s78", "s80_p3", "s79_p3", "sig0", "sig71", "s1024_p64"):
        hs.append(S("c09_auth_" + n, "authentication response into capacity/prefill " + n, fsa=1100 if "1024" in n else None, sym=80))
    for n in ("s0", "s5", "s6", "s7_p1", "s7_p2", "s64_p10"):
        hs.append(S("c09_ver_" + n, "version response into capacity/prefill " + n, sym=7))
    return hs


# ---------------------------------------------------------------------------------- C07
@register("C07", "c07", {
    "functions": ["ctap2::AuthenticatorData::<A,E>::serialize (make_credential and get_assertion instantiations)",
                  "<make_credential::AttestedCredentialData as SerializeAttestedCredentialData>::serialize",
                  "AuthenticatorDataFlags constants / from_bits_truncate", "cbor_smol::cbor_serialize_to of make_credential::Extensions / get_assertion::ExtensionsOutput"],
    "bounds": "rp hash (32 bytes), flag byte (all 256 -> all 16 combinations), counter (2^32), aaguid/id/key contents and extension "
              "values symbolic; enumerated: aaguid length 0/16/17; credential-id lengths 0,1,32,255,256 and the accept/reject frontier "
              "for key lengths 77 (543/544/545), 0 (621/622), 300 (321/322); id length symbolic in 0..=8; ids of 65535/65536/70000 "
              "bytes; every subset of the three MakeCredential extension outputs; hmac-secret output of 32/64 bytes; overflow caused by "
              "the extension map",
    "out": "credential-id lengths between the enumerated points (the routine is a chain of length-uniform extend_from_slice calls); "
           "thirdPartyPayment extension output (feature third-party-payment) is covered by C03/C16 instances only",
})
def plan_c07(tier, seed):
    hs = [S("c07_flag_bits", "flag constants and all 256 flag bytes", sym=1)]
    small = ["id0", "id1", "id32", "aaguid0", "aaguid17", "id700", "id65535", "id65536", "id70000"]
    for n in small:
        hs.append(S("c07_mc_" + n, "MakeCredential authenticator data, attested credential data instance " + n, sym=140))
    for n, t in (("id255", BOTH), ("id256", (T,)), ("id543", (T,)), ("id544", BOTH), ("id545", BOTH), ("key0_id621", (T,)), ("key0_id622", (T,)),
                 ("key300_id321", (T,)), ("key300_id322", (T,))):
        hs.append(S("c07_mc_" + n, "MakeCredential authenticator data at the capacity frontier: " + n, tiers=t, fsa=700, sym=700, timeout=2400))
    hs.append(S("c07_mc_symbolic_id_len", "credential id of symbolic length 0..=8", sym=70))
    hs.append(S("c07_header_only_both_flavours", "no attested data, no extensions: 37-byte header (both flavours)", sym=37))
    hs.append(S("c07_ga_hmac32", "GetAssertion flavour with 32-byte hmac-secret output", sym=70))
    hs.append(S("c07_ga_hmac64", "GetAssertion flavour with 64-byte hmac-secret output", sym=101))
    hs.append(S("c07_ga_empty_extensions", "GetAssertion flavour with an empty extension map", sym=37))
    for m in range(8):
        hs.append(S("c07_mc_ext_mask%d" % m, "MakeCredential flavour, attested data + extension outputs subset %d (credProtect|hmac-secret|largeBlobKey)" % m, sym=80,
                    tiers=BOTH if m in (0, 3, 5, 7) else (T,)))
    hs.append(S("c07_mc_ext_overflow", "extension map pushes the total over 676 bytes", fsa=700, sym=670, timeout=2400, tiers=(T,)))
    return hs


# ---------------------------------------------------------------------------------- C10
@register("C10", "c10", {
    "functions": ["ctap2::Authenticator::call_ctap2", "ctap1::Authenticator::call_ctap1", "impl Rpc<ctap2::Error, ctap2::Request, ctap2::Response> for A (call)",
                  "impl Rpc<ctap1::Error, ctap1::Request, ctap1::Response> for A (call)", "ctap2::Authenticator::large_blobs (default)", "ctap1::Authenticator::version (default)"],
    "bounds": "all 10 CTAP2 request variants (parameter-bearing ones decoded from a minimal concrete message) and all 3 CTAP1 variants; "
              "symbolic: entry point (generic Rpc::call vs protocol-specific), handler outcome (success / index into a table of 6 (3 for "
              "CTAP1) distinct errors), 32-bit marker planted in the success response, vendor code (all 256 -> all 64 valid), CTAP1 "
              "challenge/app id/key handle bytes",
    "out": "request payloads other than the minimal templates (dispatch passes a reference: pointer equality with the request's own "
           "parameters is asserted, so payload contents are irrelevant)",
})
def plan_c10(tier, seed):
    names = ["get_info", "get_next_assertion", "reset_selection", "vendor", "make_credential", "get_assertion", "client_pin",
             "credential_management", "large_blobs", "ctap1"]
    return [S("c10_" + n, "dispatch of %s through both entry points against a recording mock with symbolic behaviour" % n, sym=12, timeout=1800)
            for n in names]


# ---------------------------------------------------------------------------------- C02
RESP_KINDS = ["ClientPin", "LargeBlobs", "MakeCredential", "GetAssertion", "GetNextAssertion", "CredentialManagement", "GetInfo"]


def resp_masks(schema, tier):
    from . import spec
    opts = [f.rust for f in schema.fields if not f.required]
    if tier == Q:
        sets = [("none", [])] + [("only_" + o, [o]) for o in opts]
    else:
        sets = [("none", [])] + [("only_" + o, [o]) for o in opts] + [("pair_%s__%s" % (a, b), [a, b]) for a, b in zip(opts, opts[1:])]
    return opts, sets


@register("C02", "g02", {
    "functions": ["ctap2::Response::serialize::<N>", "serde-indexed SerializeIndexed expansions of the six response structs",
                  "serde derive Serialize of nested types", "cbor_smol::ser::*", "cosey RawPublicKey::serialize",
                  "FilteredPublicKeyCredentialParameters::serialize", "untagged AttestationStatement"],
})
def plan_c02(tier, seed):
    from .gen_resp import encode_harness
    from .types import Variation
    from . import spec
    hs, metas = [], []

    def add(h, configs="rich"):
        hs.append(h)
        metas.append(G(h, configs))

    for kind in RESP_KINDS:
        schema = spec.RESPONSES[kind]
        opts, sets = resp_masks(schema, tier)
        if kind == "GetNextAssertion":
            sets = [("none", []), ("only_user", ["user"])]
        for mname, pres in sets:
            feats = [schema.field(o).feature for o in pres if schema.field(o).feature]
            var = Variation(present={schema.name: pres}, default_present="all", intclass=0, maxlen=8, text="ascii", seed=seed)
            add(encode_harness("c02_%s_%s" % (schema.name if kind != "GetNextAssertion" else "gna", mname), "C02", kind, var,
                               "%s response with optional members %s (nested members all present); values symbolic"
                               % (kind, ",".join(pres) or "none")), configs="all" if mname == "none" else "rich")
    write_gen("C02", hs)
    return metas
