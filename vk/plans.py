"""Per-property plans: which harnesses exist, in which tier / feature configuration they run."""

import os
from .kani import GEN
from . import hb

Q, T = "quick", "thorough"
BOTH = (Q, T)


def S(name, desc, tiers=BOTH, requires=(), forbids=(), configs="first", fsa=None, timeout=900,
      expect="pass", bounds=None, unwindset=None, sample=None, sym=None):
    """meta record of a hand-written harness (harness/src/cNN.rs)"""
    return {"name": name, "desc": desc, "tiers": list(tiers), "requires": list(requires),
            "forbids": list(forbids), "configs": configs, "fsa": fsa, "timeout": timeout,
            "expect": expect, "bounds": bounds or {}, "unwindset": unwindset, "sample": sample,
            "symbolic_input_bytes": sym}


def G(h, configs="all"):
    m = h.meta()
    m["configs"] = configs
    return m


def write_gen(prop, harnesses, prelude=""):
    os.makedirs(GEN, exist_ok=True)
    hb.write_module(os.path.join(GEN, prop.lower() + ".rs"), harnesses, prelude)


PLANS = {}
MODULE = {}
INFO = {}


def register(prop, module, info=None):
    def deco(fn):
        PLANS[prop] = fn
        MODULE[prop] = module
        INFO[prop] = info or {}
        return fn
    return deco


# ---------------------------------------------------------------------------------- C11
@register("C11", "c11", {
    "functions": ["ctap_types::ctap2::Operation::try_from(u8)", "u8::from(Operation)", "Operation::into_u8",
                  "VendorOperation::try_from(u8)", "ctap_types::ctap2::Request::deserialize"],
    "bounds": "all 256 command bytes (symbolic u8); pairs of bytes for injectivity (2^16); "
              "Request::deserialize on 1-byte messages for every byte and on 5-byte messages (every "
              "parameter-less / unsupported / unassigned byte followed by 4 fully symbolic bytes)",
    "out": "trailing payloads longer than 4 bytes (the parameter-less arms never read them); payloads after the "
           "parameter-bearing command bytes are C01/C04/C05's subject",
})
def plan_c11(tier, seed):
    return [
        S("c11_table_total_exact", "Operation::try_from recognises exactly the assigned codes + 0x42..=0x7f; round trip", sym=1),
        S("c11_table_injective", "no two distinct bytes map to the same operation", sym=2),
        S("c11_vendor_operation_domain", "VendorOperation::try_from domain 0x40..=0x7f, round trip", sym=1),
        S("c11_deserialize_trailing4", "Request::deserialize on 16 representative command bytes of every class followed by 4 fully symbolic bytes: parameter-less commands decode from the byte alone; unsupported/unassigned => InvalidCommand", sym=4),
        S("c11_deserialize_len1", "Request::deserialize on [b] for symbolic b: all 256 bytes, all arms, empty payload", timeout=1800, sym=1),
        S("c11_preview_alias", "0x41 decodes exactly like 0x0A on a CredentialManagement template with symbolic contents (quick tier: see the 0x41 instances of C01)", tiers=(T,), timeout=1800, sym=34),
        S("c11_deserialize_empty", "empty message => InvalidCbor"),
    ]


# ---------------------------------------------------------------------------------- C01
def opt_fields(schema):
    return [f.rust for f in schema.fields if not f.required and not f.private]


@register("C01", "g01", {
    "functions": ["ctap_types::ctap2::Request::deserialize", "serde-indexed DeserializeIndexed expansions of the five request structs",
                  "serde derive expansions of the nested webauthn/ctap2 types", "cbor_smol::de::*", "cosey RawPublicKey::deserialize",
                  "webauthn::deserialize_from_str_and_truncate / _skip_if_too_long", "FilteredPublicKeyCredentialParameters::deserialize",
                  "AttestationFormatsPreference::deserialize"],
    "bounds": "Request::deserialize on the no-optional / all-optional template of each of the six command bytes (0x01, 0x02, 0x06, 0x0A, 0x41, "
              "0x0C), every bytes/text member fully symbolic (text: any well-formed UTF-8), integers small constants; the parameter map with "
              "each single optional parameter (thorough: adjacent pairs), integer arguments symbolic over a whole head class (quick: one "
              "class chosen by seed, thorough: 1/2/4-byte); every nested type stand-alone with no / each single (thorough: all) optional "
              "member incl. exact consumption; booleans enumerated (flipped by seed / both in thorough); default + all-features "
              "configurations (thorough: all 8)",
    "out": "arbitrary subsets of optional members beyond none/singletons/pairs/all; member contents longer than the defaults (capacities are "
           "C12's subject); ill-formed UTF-8 (C13, C05); requests whose map is not in canonical order",
})
def plan_c01(tier, seed):
    from .gen_req import decode_harness, nested_harness
    from .types import Variation
    from . import spec
    hs = []
    metas = []

    def add(h, configs="all"):
        hs.append(h)
        metas.append(G(h, configs))

    thorough = tier == T
    for cmd, tag in ((0x0C, "lb"), (0x06, "cp"), (0x0A, "cm"), (0x41, "cmpre"), (0x02, "ga"), (0x01, "mc")):
        schema, variant = spec.REQUESTS[cmd]
        opts = opt_fields(schema)
        # whole message through Request::deserialize: no optional parameter / all of them.
        # Integers are small constants here (a symbolic integer in the middle of a large
        # template makes CBMC lose the decoder position, DESIGN.md section 2); their classes are
        # covered by the single-parameter instances below.
        for mname, pres in (("none", []), ("full", opts)):
            var = Variation(present={schema.name: pres}, default_present="all", intclass=0, seed=seed)
            add(decode_harness("c01_%s_%s" % (tag, mname), "C01", cmd, var,
                               "%s (0x%02x) through Request::deserialize, optional parameters: %s; all bytes/text contents symbolic"
                               % (variant, cmd, ",".join(pres) or "none"), via="request", timeout=1500))
        if cmd == 0x41:
            continue
        classes = (1, 2, 4) if thorough else ((2,) if seed % 2 == 0 else (4,))
        for o in opts:
            f = schema.field(o)
            is_int = f.ty.name in ("u8", "u32")
            for cls in (classes if is_int else classes[:1]):
                var = Variation(present={schema.name: [o]}, default_present="all", intclass=cls, seed=seed)
                add(decode_harness("c01_%s_only_%s_c%d" % (tag, o, cls), "C01", cmd, var,
                                   "%s parameter map with only optional parameter %s (its nested members all present); "
                                   "integers symbolic over the whole %d-byte-argument head class" % (variant, o, cls),
                                   via="direct", timeout=1500), configs="all" if thorough else "rich")
        if thorough:
            # adjacent pairs of optional parameters (a value landing in its neighbour)
            for a, b in zip(opts, opts[1:]):
                var = Variation(present={schema.name: [a, b]}, default_present="none", intclass=0, seed=seed)
                add(decode_harness("c01_%s_pair_%s__%s" % (tag, a, b), "C01", cmd, var,
                                   "%s with optional parameters %s and %s only (nested optional members absent)" % (variant, a, b),
                                   via="direct", timeout=1500), configs="rich")
    for schema in (spec.RP, spec.USER, spec.AUTH_OPTIONS, spec.MC_EXT, spec.GA_EXT_IN, spec.CM_PARAMS, spec.HMAC_INPUT,
                   spec.DESC_REF):
        opts = opt_fields(schema)
        sets = [("none", [])] + [("only_" + o, [o]) for o in opts]
        if thorough and len(opts) > 1:
            sets.append(("full", opts))
        for mname, pres in sets:
            for flip in ((0, 1) if thorough else (seed % 2,)):
                var = Variation(present={schema.name: pres}, default_present="all", intclass=1, seed=seed, boolflip=flip)
                add(nested_harness("c01_n_%s_%s_f%d" % (schema.name, mname, flip), "C01", schema, var,
                                   "stand-alone %s with optional members: %s" % (schema.name, ",".join(pres) or "none")),
                    configs="all" if thorough else "rich")
    # rp: legacy alias `url` for `icon`
    write_gen("C01", hs)
    return metas


# ---------------------------------------------------------------------------------- C18
@register("C18", "c18", {
    "functions": ["TryFrom<&str>/From<..> for &str of get_info::{Version, Extension, Transport} and AttestationStatementFormat",
                  "serde Deserialize/Serialize of those enums (into/try_from = &str) through cbor_smol",
                  "serde_repr Deserialize/Serialize of PinV1Subcommand, credential_management::Subcommand, CredentialProtectionPolicy",
                  "TryFrom<u8> for CredentialProtectionPolicy, ctap1::ControlByte", "client_pin::Permissions::from_bits", "ctap2::Error discriminants"],
    "bounds": "string enums: ALL well-formed UTF-8 strings of <= 19 bytes (symbolic bytes and length); CBOR text items with every "
              "length that has a spelling (3,4,6,8,11,12,17) and fully symbolic contents incl. ill-formed UTF-8; numeric enums: a "
              "fully symbolic CBOR item of <= 9 bytes (all head forms: all values < 2^64, all non-minimal forms, all majors); all 256 "
              "bytes for the TryFrom<u8> / bit tables; every status constant",
    "out": "strings longer than 19 bytes (longest spelling is 17); CBOR text items of lengths without any spelling",
})
def plan_c18(tier, seed):
    hs = [
        S("c18_version_all_strings", "Version::try_from on every UTF-8 string <= 19 bytes", sym=20),
        S("c18_extension_all_strings", "Extension::try_from on every UTF-8 string <= 19 bytes", sym=20),
        S("c18_transport_all_strings", "Transport::try_from on every UTF-8 string <= 19 bytes", sym=20),
        S("c18_attfmt_all_strings", "AttestationStatementFormat::try_from on every UTF-8 string <= 19 bytes", sym=20),
        S("c18_string_enums_into", "every variant -> its spelling -> same variant"),
        S("c18_spellings_distinct", "oracle tables pairwise distinct"),
        S("c18_string_enums_serialize", "cbor_serialize of every string-enum variant"),
        S("c18_pin_subcommand_cbor", "PinV1Subcommand from a fully symbolic CBOR item <= 9 bytes", sym=9),
        S("c18_cm_subcommand_cbor", "credential_management::Subcommand from a fully symbolic CBOR item <= 9 bytes", sym=9),
        S("c18_cred_protect_cbor", "CredentialProtectionPolicy from a fully symbolic CBOR item <= 9 bytes", sym=9),
        S("c18_numeric_enums_serialize", "numeric enums serialise to their number"),
        S("c18_byte_tables", "all 256 bytes through CredentialProtectionPolicy/ControlByte TryFrom<u8>, Permissions::from_bits", sym=1),
        S("c18_status_codes", "every ctap2::Error discriminant equals the CTAP 2.1 status number"),
    ]
    for n in ("version_cbor_len8", "version_cbor_len12", "version_cbor_len6", "extension_cbor_len11", "extension_cbor_len12",
              "extension_cbor_len17", "transport_cbor_len3", "attfmt_cbor_len4", "attfmt_cbor_len6"):
        hs.append(S("c18_" + n, "cbor_deserialize of a text item with fully symbolic contents (valid or not) of that length", sym=int(n.split("len")[1])))
    return hs


# ---------------------------------------------------------------------------------- C08
@register("C08", "c08", {
    "functions": ["<ctap1::Request as TryFrom<iso7816::command::CommandView>>::try_from", "<ctap1::Request as TryFrom<&iso7816::Command<S>>>::try_from (S=64)",
                  "ctap1::ControlByte::try_from(u8)", "iso7816::command::CommandView::try_from(&[u8]) / parse_lengths (real framing layer)"],
    "bounds": "every APDU of <= 76 bytes (all bytes and the length symbolic): complete class x instruction x P1 x P2 space, short and "
              "extended Lc/Le forms, data lengths 0..=69; extended-length templates with data lengths 63,64,65,66 and 318..=321 (key "
              "handles 254/255 and off-by-one), header and every data byte symbolic",
    "out": "data lengths 70..=317 other than the listed ones; APDUs iso7816 itself rejects (reserved class 0xFF, malformed Lc) never reach ctap-types",
})
def plan_c08(tier, seed):
    hs = [S("c08_all_apdus_up_to_76", "all APDUs <= 76 bytes through the real iso7816 framing and ctap1::Request::try_from vs. the U2F decision table", sym=77, timeout=1800),
          S("c08_owned_command_64", "all APDUs <= 74 bytes through Command<64>::try_from and TryFrom<&Command<64>>", sym=75, timeout=1800)]
    for l, t in ((63, BOTH), (64, BOTH), (65, BOTH), (66, (T,)), (318, (T,)), (319, (T,)), (320, (T,)), (321, (T,))):
        hs.append(S("c08_ext_len%d" % l, "extended-length APDU with %d symbolic data bytes, symbolic header" % l, tiers=t, fsa=340, sym=l + 6, timeout=1800))
    return hs


# ---------------------------------------------------------------------------------- C09
@register("C09", "c09", {
    "functions": ["ctap1::Response::serialize::<S>", "ctap1::register::Response::new"],
    "bounds": "registration / authentication / version responses with ALL content bytes, header/presence byte, counter (2^32), "
              "public-key coordinates and pre-existing buffer bytes symbolic; part lengths and buffer capacities enumerated: every "
              "capacity around each part boundary for a 99-byte registration response, empty parts, key handle 254/255, certificate "
              "1024 (thorough tier), signature 71/72, prefill 0/2/3/whole",
    "out": "the 1418-byte maximal response and capacity 2048 (measured: > 50 min per instance, not run); part-length triples other than the enumerated ones (the encoder is a chain of length-uniform push/extend calls); buffer "
           "contents after a failed call (unspecified by the property)",
})
def plan_c09(tier, seed):
    small = ["s0", "s1", "s65", "s66", "s67", "s74", "s75", "s90", "s91", "s98", "s99", "s100", "s102_p3", "s101_p3", "s99_p99",
             "empty_parts", "empty_parts_short"]
    hs = [S("c09_reg_" + n, "registration response (kh 8, cert 16, sig 8 unless named) into capacity/prefill " + n, sym=100) for n in small]
    for n, t in (("kh255", BOTH), ("kh255_short", BOTH), ("kh254", (T,))):
        hs.append(S("c09_reg_" + n, "registration response with a %s key handle" % n, tiers=t, fsa=420, sym=400, timeout=2400))
    for n, t in (("cert1024", (T,)), ("cert1024_short", (T,))):
        hs.append(S("c09_reg_" + n, "registration response with the maximal certificate: " + n, tiers=t, fsa=1300, sym=1200, timeout=3600))
    for n in ("s0", "s1", "s4", "s5", "s76", "s77", "s78", "s80_p3", "s79_p3", "sig0", "sig71", "s1024_p64"):
        hs.append(S("c09_auth_" + n, "authentication response into capacity/prefill " + n, fsa=1100 if "1024" in n else None, sym=80))
    for n in ("s0", "s5", "s6", "s7_p1", "s7_p2", "s64_p10"):
        hs.append(S("c09_ver_" + n, "version response into capacity/prefill " + n, sym=7))
    return hs


# ---------------------------------------------------------------------------------- C07
@register("C07", "c07", {
    "functions": ["ctap2::AuthenticatorData::<A,E>::serialize (make_credential and get_assertion instantiations)",
                  "<make_credential::AttestedCredentialData as SerializeAttestedCredentialData>::serialize",
                  "AuthenticatorDataFlags constants / from_bits_truncate", "cbor_smol::cbor_serialize_to of make_credential::Extensions / get_assertion::ExtensionsOutput"],
    "bounds": "rp hash (32 bytes), flag byte (all 256 -> all 16 combinations), counter (2^32), aaguid/id/key contents and extension "
              "values symbolic; enumerated: aaguid length 0/16/17; credential-id lengths 0,1,32,255,256 and the accept/reject frontier "
              "for key lengths 77 (543/544/545), 0 (621/622), 300 (321/322); id length symbolic in 0..=8; ids of 65535/65536/70000 "
              "bytes; every subset of the three MakeCredential extension outputs; hmac-secret output of 32/64 bytes; overflow caused by "
              "the extension map",
    "out": "credential-id lengths between the enumerated points (the routine is a chain of length-uniform extend_from_slice calls); "
           "thirdPartyPayment extension output (feature third-party-payment) is covered by C03/C16 instances only",
})
def plan_c07(tier, seed):
    hs = [S("c07_flag_bits", "flag constants and all 256 flag bytes", sym=1)]
    small = ["id0", "id1", "id32", "aaguid0", "aaguid17", "id700", "id65535", "id65536", "id70000"]
    for n in small:
        hs.append(S("c07_mc_" + n, "MakeCredential authenticator data, attested credential data instance " + n, sym=140))
    for n, t in (("id255", BOTH), ("id256", (T,)), ("id543", (T,)), ("id544", BOTH), ("id545", BOTH), ("key0_id621", (T,)), ("key0_id622", (T,)),
                 ("key300_id321", (T,)), ("key300_id322", (T,))):
        hs.append(S("c07_mc_" + n, "MakeCredential authenticator data at the capacity frontier: " + n, tiers=t, fsa=700, sym=700, timeout=2400))
    hs.append(S("c07_mc_symbolic_id_len", "credential id of symbolic length 0..=8", sym=70))
    hs.append(S("c07_header_only_both_flavours", "no attested data, no extensions: 37-byte header (both flavours)", sym=37))
    hs.append(S("c07_ga_hmac32", "GetAssertion flavour with 32-byte hmac-secret output", sym=70))
    hs.append(S("c07_ga_hmac64", "GetAssertion flavour with 64-byte hmac-secret output", sym=101))
    hs.append(S("c07_ga_empty_extensions", "GetAssertion flavour with an empty extension map", sym=37))
    for m in range(8):
        hs.append(S("c07_mc_ext_mask%d" % m, "MakeCredential flavour, attested data + extension outputs subset %d (credProtect|hmac-secret|largeBlobKey)" % m, sym=80,
                    tiers=BOTH if m in (0, 1, 6) else (T,)))
    hs.append(S("c07_mc_ext_overflow", "extension map pushes the total over 676 bytes", fsa=700, sym=670, timeout=2400, tiers=(T,)))
    return hs


# ---------------------------------------------------------------------------------- C10
@register("C10", "c10", {
    "functions": ["ctap2::Authenticator::call_ctap2", "ctap1::Authenticator::call_ctap1", "impl Rpc<ctap2::Error, ctap2::Request, ctap2::Response> for A (call)",
                  "impl Rpc<ctap1::Error, ctap1::Request, ctap1::Response> for A (call)", "ctap2::Authenticator::large_blobs (default)", "ctap1::Authenticator::version (default)"],
    "bounds": "all 10 CTAP2 request variants (parameter-bearing ones decoded from a minimal concrete message) and all 3 CTAP1 variants; "
              "symbolic: entry point (generic Rpc::call vs protocol-specific), handler outcome (success / index into a table of 6 (3 for "
              "CTAP1) distinct errors), 32-bit marker planted in the success response, vendor code (all 256 -> all 64 valid), CTAP1 "
              "challenge/app id/key handle bytes",
    "out": "request payloads other than the minimal templates (dispatch passes a reference: pointer equality with the request's own "
           "parameters is asserted, so payload contents are irrelevant)",
})
def plan_c10(tier, seed):
    names = ["get_info", "get_next_assertion", "reset_selection", "vendor", "make_credential", "get_assertion", "client_pin",
             "credential_management", "large_blobs", "ctap1"]
    return [S("c10_" + n, "dispatch of %s through both entry points against a recording mock with symbolic behaviour" % n, sym=12, timeout=1800)
            for n in names]


# ---------------------------------------------------------------------------------- C02
RESP_KINDS = ["ClientPin", "LargeBlobs", "MakeCredential", "GetAssertion", "GetNextAssertion", "CredentialManagement", "GetInfo"]


def resp_masks(schema, tier):
    from . import spec
    opts = [f.rust for f in schema.fields if not f.required]
    if tier == Q:
        sets = [("none", [])] + [("only_" + o, [o]) for o in opts]
    else:
        sets = [("none", [])] + [("only_" + o, [o]) for o in opts] + [("pair_%s__%s" % (a, b), [a, b]) for a, b in zip(opts, opts[1:])]
    return opts, sets


@register("C02", "g02", {
    "functions": ["ctap2::Response::serialize::<N>", "serde-indexed SerializeIndexed expansions of the six response structs",
                  "serde derive Serialize of nested types", "cbor_smol::ser::*", "cosey RawPublicKey::serialize",
                  "FilteredPublicKeyCredentialParameters::serialize", "untagged AttestationStatement"],
    "bounds": "every response struct: no optional member, every single optional member (thorough: also every adjacent pair) with all "
              "nested members present, byte-for-byte against the reference encoding under the specification keys; all bytes/text "
              "contents (<= 8 bytes each), booleans, COSE coordinates symbolic; every optional integer member alone with its value "
              "symbolic over a whole head class; status byte / empty-map collapse / per-variant arm through Response::serialize::<N> "
              "(N <= 64) for ClientPin, LargeBlobs, MakeCredential, CredentialManagement, GetInfo, Reset, Selection, Vendor",
    "out": "GetAssertion / GetNextAssertion through Response::serialize only for the listed member sets (5 min and 11 GB each; the response is "
           "built in place inside the enum, a moved response makes CBMC lose its Option discriminants); "
           "member contents longer than 8 bytes (C17/C12 cover sizes); arbitrary subsets beyond singletons/pairs",
})
def plan_c02(tier, seed):
    from .gen_resp import encode_harness
    from .types import Variation
    from . import spec
    hs, metas = [], []

    def add(h, configs="rich"):
        hs.append(h)
        metas.append(G(h, configs))

    for kind in RESP_KINDS:
        schema = spec.RESPONSES[kind]
        tag = schema.name if kind != "GetNextAssertion" else "gna"
        opts, sets = resp_masks(schema, tier)
        if kind == "GetNextAssertion":
            continue  # same struct type as GetAssertion; the dispatch arm is covered below
        for mname, pres in sets:
            # the body: cbor_serialize(&response, ..), the exact call each Response::serialize arm makes
            var = Variation(present={schema.name: pres}, default_present="all", intclass=0, maxlen=8, text="ascii", seed=seed)
            add(encode_harness("c02_%s_%s" % (tag, mname), "C02", kind, var,
                               "%s response body with optional members %s (nested members all present); all values symbolic"
                               % (kind, ",".join(pres) or "none"), via="direct"), configs="all" if mname == "none" else "rich")
        # integers: each integer member alone, symbolic over a whole head class
        for f in schema.fields:
            if f.ty is not None and f.ty.name in ("u8", "u32", "usize") and not f.required:
                for cls in ((1, 2, 4, 8) if tier == T else (2,)):
                    from . import cbor as C
                    if C.CLASS_RANGE[cls][0] > {"u8": 0xFF, "u32": 0xFFFFFFFF, "usize": 2 ** 64 - 1}[f.ty.name]:
                        continue
                    var = Variation(present={schema.name: [f.rust]}, default_present="none", intclass=0, maxlen=4, text="ascii", seed=seed,
                                    choose={"%s.%s#class" % (schema.name, f.rust): cls})
                    add(encode_harness("c02_%s_int_%s_c%d" % (tag, f.rust, cls), "C02", kind, var,
                                       "%s response with %s symbolic over the whole %d-byte-argument class" % (kind, f.rust, cls), via="direct"))
    # framing through Response::serialize: status byte, per-variant arm, empty-map collapse
    FRAMES = [("ClientPin", []), ("ClientPin", ["retries", "pin_token"]), ("LargeBlobs", []), ("MakeCredential", []), ("MakeCredential", ["ep_att"]),
              ("CredentialManagement", []), ("CredentialManagement", ["total_rps", "rp_id_hash"]), ("GetInfo", []), ("GetInfo", ["max_msg_size"]),
              # GetNextAssertion must encode exactly like GetAssertion: the same instance through both variants (5 min / 11 GB each)
              ("GetAssertion", ["number_of_credentials", "user_selected"]), ("GetNextAssertion", ["number_of_credentials", "user_selected"])]
    if tier == T:
        FRAMES += [("GetAssertion", []), ("GetNextAssertion", []), ("GetNextAssertion", ["user"]), ("GetNextAssertion", ["large_blob_key", "ep_att"]),
                   ("GetAssertion", ["att_stmt"]), ("GetNextAssertion", ["att_stmt"])]
    for kind, pres in FRAMES:
        schema = spec.RESPONSES[kind]
        var = Variation(present={schema.name: pres}, default_present="all", intclass=0, maxlen=8, text="ascii", seed=seed)
        add(encode_harness("c02_frame_%s_%s" % (schema.name if kind != "GetNextAssertion" else "gna", "_".join(pres) or "none"), "C02", kind, var,
                           "%s through Response::serialize: 0x00 + body (status byte alone when no member is set); members: %s"
                           % (kind, ",".join(pres) or "none"), via="response"), configs="first")
    write_gen("C02", hs, prelude=C02_PRELUDE)
    metas.append(S("c02_parameterless", "Reset / Selection / Vendor encode as the status byte alone, whatever the buffer held", configs="first", sym=9))
    return metas


C02_PRELUDE = '''
/// Reset, Selection and Vendor encode as the status byte alone (buffer pre-filled with symbolic bytes)
#[kani::proof]
#[kani::unwind(20)]
fn c02_parameterless() {
    let pre: [u8; 9] = kani::any();
    let kinds = [Response::Reset, Response::Selection, Response::Vendor];
    let mut k = 0;
    while k < 3 {
        let mut buf: ctap_types::Vec<u8, 16> = ctap_types::Vec::new();
        let mut i = 0;
        while i < 9 {
            buf.push(pre[i]).ok().unwrap();
            i += 1;
        }
        kinds[k].serialize(&mut buf);
        assert!(buf.len() == 1 && buf[0] == 0x00, "parameter-less response = status byte alone");
        k += 1;
    }
    kani::cover!(k == 3, "all three");
}
'''


# ---------------------------------------------------------------------------------- C05
def pick(items, tier, seed, k, kt=None):
    """quick tier: a seed-determined sample of k items (evenly spread); thorough: all (or kt items when given)"""
    items = list(items)
    if tier == T and kt is not None:
        k = kt
    elif tier == T:
        return items
    if len(items) <= k:
        return items
    step = len(items) / float(k)
    off = seed % max(1, int(step))
    return [items[min(len(items) - 1, int(i * step) + off)] for i in range(k)]


@register("C05", "g05", {
    "functions": ["ctap_types::ctap2::Request::deserialize", "impl From<CtapMappingError> for ctap2::Error",
                  "serde-indexed visit_map (missing_field / duplicate_field / inexistent index)", "serde derive visit_map of nested types",
                  "cosey check_key_constants", "cbor_smol::de raw_deserialize_* (non-minimal / indefinite / bad major)"],
    "bounds": "one fault per message, applied to the full-presence template of each parameter-bearing command (all bytes/text contents "
              "symbolic, integers small constants): removal of each required parameter / required nested member, duplication of each key, "
              "non-minimal re-encoding of each integer and each length head, indefinite-length form of each container and string, each "
              "member's value replaced by one value of every other data type, an unknown integer key, truncation after every item "
              "boundary +-1 (enumerated cut points), the empty message, all 256 command bytes with an empty payload",
    "out": "several simultaneous faults (status precedence); faults inside values that are skipped as unknown members; sign changes of "
           "signed members and null for optional members (not faults)",
})
def plan_c05(tier, seed):
    from .gen_fault import (status_harness, walk, pdesc, pname, remove_entry, dup_entry, edit, get, other_type_values, node_type, KeyRef)
    from .types import Variation, Ctx
    from . import spec, cbor as C
    from .hb import Harness
    hs, metas = [], []

    def add(h, configs="rich"):
        hs.append(h)
        metas.append(G(h, configs))

    cmds = ((0x0C, "lb"), (0x06, "cp"), (0x0A, "cm"), (0x02, "ga"), (0x01, "mc"))
    for cmd, tag in cmds:
        schema, variant = spec.REQUESTS[cmd]

        def base_var():
            return Variation(default_present="all", intclass=0, seed=seed)

        # a scratch build of the tree to enumerate fault sites (same shape as the real one)
        sh = Harness("scratch", "C05", "")
        sm = schema.make(Ctx(sh, base_var()), schema.name)
        tree = schema.cbor(sm)
        sites = list(walk(tree))
        maps = [(p, n) for p, n in sites if isinstance(n, C.Map)]

        # 1. required members removed => MissingParameter
        REQUIRED = {  # spec: which members of which map are required (by key)
            "mc": {(): [1, 2, 3, 4], (2,): ["id"], (3,): ["id"], (4, 0): ["alg", "type"], (5, 0): ["id", "type"]},
            "ga": {(): [1, 2], (3, 0): ["id", "type"], (4, "hmac-secret"): [1, 2, 3], (4, "hmac-secret", 1): [1, -1, -2, -3]},
            "cp": {(): [1, 2], (3,): [1, -1, -2, -3]},
            "cm": {(): [1], (2, 2): ["id", "type"], (2, 3): ["id"]},
            "lb": {(): [3]},
        }[tag]
        faults = []
        for mp, keys in REQUIRED.items():
            for k in keys:
                faults.append(("missing_%s_%s" % (pname(mp), str(k).replace("-", "m")), 0x14,
                               "required member %s of %s removed (count adjusted)" % (k, pdesc(mp)),
                               (lambda mp=mp, k=k: (lambda t: remove_entry(t, list(mp), k)))()))
        # 2. every key duplicated => InvalidCbor
        for p, n in maps:
            for k, v in n.entries:
                kk = pname((KeyRef(k),))
                faults.append(("dup_%s_%s" % (pname(p), kk), 0x12,
                               "key %s of %s duplicated" % (kk, pdesc(p)),
                               (lambda p=p, k=k: (lambda t: dup_entry(t, list(p), k)))()))
        # 3. non-minimal heads
        for p, n in sites:
            if not p:
                continue
            if isinstance(n, (C.UInt, C.NInt)) and n.force_class is None:
                val = n.v if isinstance(n, C.UInt) else n.n
                cls = 1 if val < 24 else (2 if val < 256 else 4)
                faults.append(("nonmin_int_%s" % pname(p), 0x12, "integer at %s re-encoded with a %d-byte argument (non-minimal)" % (pdesc(p), cls),
                               (lambda p=p, cls=cls: (lambda t: edit(t, list(p), lambda x: _force(x, cls))))()))
            elif isinstance(n, (C.Bytes, C.Array, C.Map)) and n.force_class is None:
                ln = len(n.content) if isinstance(n, C.Bytes) else (len(n.items) if isinstance(n, C.Array) else len(n.entries))
                cls = 1 if ln < 24 else 2
                faults.append(("nonmin_len_%s" % pname(p), 0x12, "length head at %s re-encoded non-minimally" % pdesc(p),
                               (lambda p=p, cls=cls: (lambda t: edit(t, list(p), lambda x: _force(x, cls))))()))
        # 4. indefinite-length forms
        for p, n in sites:
            if isinstance(n, (C.Bytes, C.Array, C.Map)):
                faults.append(("indef_%s" % pname(p), 0x12, "item at %s given an indefinite-length head" % pdesc(p),
                               (lambda p=p: (lambda t: edit(t, list(p), _indefinite)))()))
        # 5. wrong data type (top-level members and members of nested maps)
        for p, n in sites:
            if not p or isinstance(p[-1], int):
                continue
            own = node_type(n)
            for ty in ("uint", "nint", "bytes", "text", "array", "map", "bool"):
                if ty == own:
                    continue
                if own in ("uint", "nint") and ty in ("uint", "nint") and _signed_member(tag, p):
                    continue  # sign change of a signed member is not a fault
                faults.append(("type_%s_as_%s" % (pname(p), ty), 0x12, "value at %s replaced by a %s" % (pdesc(p), ty),
                               (lambda p=p, ty=ty: ("TYPE", p, ty))()))
        # 6. unknown integer key at top level
        faults.append(("unknown_int_key", 0x12, "an unassigned integer key (0x20) added to the parameter map",
                       lambda t: _add_unknown_int_key(t)))
        # 7. truncation at item boundaries -1/0/+1
        enc = C.encode(tree)
        cuts = sorted({c for c in _boundaries(tree) for c in (c - 1, c, c + 1) if 0 <= c < len(enc)})
        k_each = {"quick": 6}.get(tier, 10 ** 6)
        chosen = []
        chosen += pick([f for f in faults if f[0].startswith("missing")], tier, seed, 3)
        chosen += pick([f for f in faults if f[0].startswith("dup")], tier, seed, 2, 14)
        chosen += pick([f for f in faults if f[0].startswith("nonmin")], tier, seed, 2, 14)
        chosen += pick([f for f in faults if f[0].startswith("indef")], tier, seed, 1, 10)
        chosen += pick([f for f in faults if f[0].startswith("type")], tier, seed, 4, 40)
        chosen += [f for f in faults if f[0].startswith("unknown") and (tier == T or tag in ("lb", "cm"))]
        for fname, want, fdesc, change in chosen:
            if isinstance(change, tuple) and change[0] == "TYPE":
                _, p, ty = change
                h = _type_fault_harness("c05_%s_%s" % (tag, fname), cmd, base_var(), p, ty, want, "%s: %s" % (variant, fdesc))
            else:
                h = status_harness("c05_%s_%s" % (tag, fname), "C05", cmd, base_var(), change, want, "%s: %s" % (variant, fdesc))
            add(h)
        for cut in pick(cuts, tier, seed, 2, 12):
            add(status_harness("c05_%s_trunc_%d" % (tag, cut), "C05", cmd, base_var(),
                               (lambda cut=cut: (lambda t: C.encode(t)[:cut]))(), 0x12,
                               "%s: parameter map truncated after %d of %d bytes" % (variant, cut, len(enc))))
    # every required member of every nested type, stand-alone (cheap, so ALL of them in both tiers): the same
    # missing_field -> SerdeMissingField -> MissingParameter mapping the transport applies (util::cbor_status)
    from .gen_fault import nested_accept
    NESTED_REQ = [(spec.RP, [], ["id"]), (spec.USER, [], ["id"]), (spec.PARAMS, [], ["alg", "type"]), (spec.DESC_REF, [], ["id", "type"]),
                  (spec.DESC, [], ["id", "type"]), (spec.HMAC_INPUT, [], [1, 2, 3]), (spec.HMAC_INPUT, [1], [1, -1, -2, -3])]
    for schema, mp, keys in NESTED_REQ:
        for k in keys:
            var = Variation(default_present="all", intclass=0, seed=seed)
            add(nested_accept("c05_n_%s_missing_%s_%s" % (schema.name, pname(mp), str(k).replace("-", "m")), "C05", schema, var,
                              (lambda mp=mp, k=k: (lambda t: remove_entry(t, list(mp), k)))(),
                              "stand-alone %s with required member %s of %s removed => MissingParameter" % (schema.name, k, pdesc(mp) if mp else "the map"),
                              stub="branch", expect_status=0x14), configs="first")
    write_gen("C05", hs, prelude=C05_PRELUDE)
    metas.append(S("c05_command_bytes", "all 256 command bytes with an empty payload: unassigned/unsupported => 0x01, parameter-bearing => "
                   "0x12 (empty map data), parameter-less => accepted", configs="first", sym=1, timeout=1800))
    metas.append(S("c05_empty_message", "empty message => 0x12", configs="first"))
    return metas


def _force(n, cls):
    n.force_class = cls
    return n


def _indefinite(n):
    from . import cbor as C
    enc = n.enc()
    major = enc[0] >> 5
    hl = 1 if (enc[0] & 31) < 24 else {24: 2, 25: 3, 26: 5, 27: 9}[enc[0] & 31]
    return C.Raw([(major << 5) | 31] + enc[hl:] + [0xFF], "indefinite(" + n.describe() + ")")


def _signed_member(tag, p):
    d = p[-1].describe() if hasattr(p[-1], "describe") else str(p[-1])
    return d in ("alg", "3", "-1", "1") and len(p) >= 2


def _add_unknown_int_key(t):
    import copy
    from . import cbor as C
    t = copy.deepcopy(t)
    t.entries.append((C.UInt(0x20), C.UInt(1)))
    return t


def _boundaries(tree):
    """offsets (in the parameter map encoding) at which an item ends"""
    from . import cbor as C
    out = []

    def rec(n, base):
        enc = n.enc()
        out.append(base + len(enc))
        if isinstance(n, C.Map):
            pos = base + len(C.head(C.MT_MAP, len(n.entries)))
            for k, v in n.entries:
                pos += len(k.enc())
                out.append(pos)
                rec(v, pos)
                pos += len(v.enc())
        elif isinstance(n, C.Array):
            pos = base + len(C.head(C.MT_ARRAY, len(n.items)))
            for it in n.items:
                rec(it, pos)
                pos += len(it.enc())
    rec(tree, 0)
    return out


def _type_fault_harness(name, cmd, var, p, ty, want, desc):
    from .gen_fault import status_harness, edit, other_type_values
    from .hb import Harness
    holder = {}

    def change(t):
        return edit(t, list(p), lambda x: holder["vals"][ty])
    # the replacement values need symbols declared in the same harness: build in two steps
    from . import spec, cbor as C
    from .types import Ctx
    from .gen_req import fsa_for
    h = Harness(name, "C05", desc, timeout=1500, stub_utf8="assume")
    schema, variant = spec.REQUESTS[cmd]
    ctx = Ctx(h, var)
    m = schema.make(ctx, schema.name)
    holder["vals"] = other_type_values(h)
    node = change(schema.cbor(m))
    msg = [cmd] + C.encode(node)
    h.requires = tuple(sorted(ctx.requires))
    h.sample = "%02x %s" % (cmd, node.describe())
    h.add(*h.array_literal("msg", msg))
    h.add("let r = Request::deserialize(&msg);")
    h.add("let st = status(&r);")
    h.add('assert!(st == 0x%02x, "status for this fault must be 0x%02x");' % (want, want))
    h.add('kani::cover!(true, "decoder returned");')
    h.fsa = fsa_for(len(msg))
    h.unwind = max(h.maxlen, 32) + 4
    h.bounds = {"message_bytes": len(msg), "unwind": h.unwind, "expected_status": want}
    return h


C05_PRELUDE = '''
/// all 256 command bytes with an empty payload (symbolic byte, every arm)
#[kani::proof]
#[kani::unwind(8)]
fn c05_command_bytes() {
    let b: u8 = kani::any();
    let msg = [b];
    let st = status(&Request::deserialize(&msg));
    match b {
        0x04 | 0x07 | 0x08 | 0x0B | 0x42..=0x7F => assert!(st == 0, "parameter-less command accepted"),
        0x01 | 0x02 | 0x06 | 0x0A | 0x0C | 0x41 => assert!(st == 0x12, "parameter map missing entirely => InvalidCbor"),
        _ => assert!(st == 0x01, "unassigned or unsupported command => InvalidCommand"),
    }
    kani::cover!(st == 0x01, "InvalidCommand reachable");
    kani::cover!(st == 0x12, "InvalidCbor reachable");
}

#[kani::proof]
fn c05_empty_message() {
    let st = status(&Request::deserialize(&[]));
    assert!(st == 0x12, "empty message => InvalidCbor");
}
'''


# ---------------------------------------------------------------------------------- C12
@register("C12", "g12", {
    "functions": ["heapless String<N>/Vec<T,N>/heapless_bytes::Bytes<N>/serde_bytes::ByteArray<N> Deserialize impls as instantiated by the "
                  "request types", "cbor_smol::de raw_deserialize_u8/u32, deserialize_i32", "webauthn::deserialize_from_str_and_skip_if_too_long"],
    "bounds": "every bounded member at capacity-1, capacity, capacity+1 and one far-beyond length (contents symbolic): user id 64, rp id 256, "
              "user icon 128 (dropped beyond), parameter type 32, allow list 10, exclude list 16, hmac salt 80 / salt auth 32, COSE "
              "coordinates 32, rp id hash exactly 32; every integer member with its argument symbolic over the WHOLE head class for each "
              "class up to 9-byte heads (accepted iff within the member's type range, then equal)",
    "out": "lengths strictly between the enumerated points; algorithm identifiers inside -24..=23 other than the enumerated ones",
})
def plan_c12(tier, seed):
    from .gen_fault import nested_accept, accept_harness, status_harness, edit
    from .gen_req import nested_harness, decode_harness
    from .types import Variation
    from . import spec, cbor as C
    hs, metas = [], []

    def add(h, configs="rich"):
        hs.append(h)
        metas.append(G(h, configs))

    ident = lambda t: t
    # (schema, struct name, member path, capacity, kind) ; kind: reject beyond / drop beyond
    LIMITS = [
        (spec.USER, "user.id", 64, "reject", {"user": []}),
        (spec.RP, "rp.id", 256, "reject", {"rp": []}),
        (spec.USER, "user.icon", 128, "drop", {"user": ["icon"]}),
        (spec.PARAMS, "params.key_type", 32, "reject", {}),
        (spec.HMAC_INPUT, "hmacin.salt_enc", 80, "reject", {"hmacin": []}),
        (spec.HMAC_INPUT, "hmacin.salt_auth", 32, "reject", {"hmacin": []}),
        (spec.DESC, "desc.key_type", 32, "reject", {}),
    ]
    for schema, path, cap, kind, pres in LIMITS:
        points = [cap - 1, cap, cap + 1, cap + 40] if tier == T else [cap, cap + 1]
        for ln in points:
            var = Variation(present=dict(pres), default_present="none", intclass=0, lens={path: ln}, seed=seed)
            nm = "c12_%s_len%d" % (path.replace(".", "_"), ln)
            if ln <= cap:
                add(nested_accept(nm, "C12", schema, var, ident, "%s of %d bytes (capacity %d): accepted whole" % (path, ln, cap)))
            elif kind == "reject":
                add(nested_accept(nm, "C12", schema, var, ident, "%s of %d bytes (capacity %d): rejected with InvalidCbor" % (path, ln, cap),
                                  expect_status=0x12))
            else:
                def patch(m, path=path):
                    m[path.split(".")[1]] = None
                add(nested_accept(nm, "C12", schema, var, ident, "%s of %d bytes (capacity %d): dropped, value still accepted" % (path, ln, cap),
                                  patch_model=patch))
    # COSE coordinates: 31/32 accepted, 33 rejected (x and y)
    for coord, key in (("x", -2), ("y", -3)):
        for ln in ([31, 32, 33] if tier == T else [32, 33]):
            def change(t, ctx, key=key, ln=ln):
                v, ex = ctx.h.sym_bytes(ln, "co")
                return edit(t, [1, key], lambda n: C.Bytes(ex))
            var = Variation(present={"hmacin": []}, default_present="none", intclass=0, seed=seed)
            nm = "c12_cose_%s_len%d" % (coord, ln)
            if ln <= 32:
                # shorter coordinates are accepted by the Bytes<32> member; the model value is replaced accordingly
                hh = nested_accept(nm, "C12", spec.HMAC_INPUT, var, change, "COSE %s coordinate of %d bytes: accepted" % (coord, ln),
                                   expect_status=0x00)
            else:
                hh = nested_accept(nm, "C12", spec.HMAC_INPUT, var, change, "COSE %s coordinate of %d bytes: rejected" % (coord, ln),
                                   expect_status=0x12)
            add(hh)
    # rp id hash: exactly 32
    for ln in ([31, 32, 33, 64] if tier == T else [31, 32, 33]):
        def change(t, ctx, ln=ln):
            v, ex = ctx.h.sym_bytes(ln, "rh")
            return edit(t, [1], lambda n: C.Bytes(ex))
        var = Variation(present={"cmparams": ["rp_id_hash"]}, default_present="none", intclass=0, seed=seed)
        add(nested_accept("c12_rp_id_hash_len%d" % ln, "C12", spec.CM_PARAMS, var, change,
                          "rpIDHash of %d bytes: accepted iff exactly 32" % ln, expect_status=0x00 if ln == 32 else 0x12))
    # list capacities: allow list 10, exclude list 16
    for cmd, tag, fld, path, cap in ((0x02, "ga", "allow_list", "ga.allow_list", 10), (0x01, "mc", "exclude_list", "mc.exclude_list", 16)):
        for cnt in ([cap - 1, cap, cap + 1, cap + 9] if tier == T else [cap, cap + 1]):
            lens = {path + "#count": cnt}
            for i in range(cnt):
                lens["%s[%d].id" % (path, i)] = 2
                lens["%s[%d].key_type" % (path, i)] = 3
            var = Variation(present={tag: [fld]}, default_present="none", intclass=0, lens=lens, seed=seed)
            nm = "c12_%s_count%d" % (fld, cnt)
            if cnt <= cap:
                add(accept_harness(nm, "C12", cmd, var, ident, "%s with %d entries (capacity %d): accepted whole" % (fld, cnt, cap), via="direct",
                                   timeout=2400))
            else:
                add(status_harness(nm, "C12", cmd, var, ident, 0x12, "%s with %d entries (capacity %d): rejected with InvalidCbor" % (fld, cnt, cap),
                                   stub="assume", timeout=2400))
    # integer members: whole head classes
    INTS = [(0x0C, "lb", "offset", "u32", True), (0x0C, "lb", "get", "u32", False), (0x06, "cp", "pin_protocol", "u8", True),
            (0x06, "cp", "permissions", "u8", False), (0x0A, "cm", "pin_protocol", "u8", False),
            (0x02, "ga", "pin_protocol", "u32", False), (0x01, "mc", "enterprise_attestation", "u32", False)]
    for cmd, tag, fld, ty, required in (INTS if tier == T else INTS[:4]):
        schema, variant = spec.REQUESTS[cmd]
        tymax = {"u8": 0xFF, "u32": 0xFFFFFFFF}[ty]
        for cls in (1, 2, 4, 8):
            lo, hi = C.CLASS_RANGE[cls]
            fits_all = hi <= tymax
            fits_none = lo > tymax
            pres = {tag: ([] if required else [fld])}
            # the member is re-encoded with a symbolic argument over the whole class
            def change(t, ctx, cls=cls, key=schema.field(fld).key):
                v = ctx.h.sym_uint(*C.CLASS_RANGE[cls])
                ctx.h._c12var = v
                return edit(t, [key], lambda n: C.SymInt(v, cls))
            var = Variation(present=pres, default_present="none", intclass=0, seed=seed)
            nm = "c12_int_%s_%s_c%d" % (tag, fld, cls)
            desc = "%s.%s (%s) with a %d-byte argument symbolic over the whole class" % (variant, fld, ty, cls)
            h = _int_range_harness(nm, cmd, var, change, fld, required, tymax, desc)
            add(h)
        # negative head: never accepted for an unsigned member
        def changen(t, ctx, key=schema.field(fld).key):
            v = ctx.h.sym_uint(24, 255)
            return edit(t, [key], lambda n: C.SymInt(v, 1, C.MT_NINT))
        var = Variation(present={tag: ([] if required else [fld])}, default_present="none", intclass=0, seed=seed)
        add(status_harness("c12_int_%s_%s_negative" % (tag, fld), "C12", cmd, var, (lambda t: t), 0x12, "placeholder") if False else
            _neg_harness("c12_int_%s_%s_negative" % (tag, fld), cmd, var, changen, "%s.%s given a negative integer: rejected" % (variant, fld)))
    # algorithm identifiers: whole signed 32-bit range accepted by the parameter entry, beyond rejected
    for major, mname in ((0, "pos"), (1, "neg")):
        for cls in (1, 2, 4, 8):
            var = Variation(default_present="all", intclass=0, seed=seed)
            add(_alg_range_harness("c12_alg_%s_c%d" % (mname, cls), var, cls, major,
                                   "PublicKeyCredentialParameters.alg with a %s %d-byte argument over the whole class: accepted iff within i32" % (mname, cls)))
    write_gen("C12", hs)
    return metas


def _int_range_harness(name, cmd, var, change, fld, required, tymax, desc):
    from .hb import Harness
    from .types import Ctx
    from . import spec, cbor as C
    from .gen_req import fsa_for
    h = Harness(name, "C12", desc, timeout=1500, stub_utf8="assume")
    schema, variant = spec.REQUESTS[cmd]
    ctx = Ctx(h, var)
    m = schema.make(ctx, schema.name)
    node = change(schema.cbor(m), ctx)
    v = h._c12var
    msg = [cmd] + C.encode(node)
    h.sample = "%02x %s" % (cmd, node.describe())
    h.add(*h.array_literal("msg", msg))
    h.add("let r = Request::deserialize(&msg);")
    h.add("match r {")
    h.add("    Ok(Request::%s(req)) => {" % variant)
    h.add('        assert!(%s <= %d, "a value beyond the type maximum must be rejected, not wrapped or clamped");' % (v, tymax))
    if required:
        h.add('        assert!(req.%s as u64 == %s, "accepted integer delivered unchanged");' % (fld, v))
    else:
        h.add('        assert!(req.%s.map(|x| x as u64) == Some(%s), "accepted integer delivered unchanged");' % (fld, v))
    h.add("    }")
    h.add("    Ok(_) => assert!(false),")
    h.add('    Err(e) => { assert!(%s > %d, "a value within the type range must be accepted"); assert!(e as u8 == 0x12, "range error => InvalidCbor"); }' % (v, tymax))
    h.add("};")
    h.add('kani::cover!(true, "decoder returned");')
    h.fsa = fsa_for(len(msg))
    h.unwind = 40
    h.bounds = {"message_bytes": len(msg), "unwind": 40}
    return h


def _neg_harness(name, cmd, var, change, desc):
    from .hb import Harness
    from .types import Ctx
    from . import spec, cbor as C
    h = Harness(name, "C12", desc, timeout=1500, stub_utf8="assume")
    schema, variant = spec.REQUESTS[cmd]
    ctx = Ctx(h, var)
    m = schema.make(ctx, schema.name)
    node = change(schema.cbor(m), ctx)
    msg = [cmd] + C.encode(node)
    h.sample = "%02x %s" % (cmd, node.describe())
    h.add(*h.array_literal("msg", msg))
    h.add('assert!(status(&Request::deserialize(&msg)) == 0x12, "negative value for an unsigned member => InvalidCbor");')
    h.add('kani::cover!(true, "decoder returned");')
    h.unwind = 40
    h.bounds = {"message_bytes": len(msg), "unwind": 40}
    return h


def _alg_range_harness(name, var, cls, major, desc):
    from .hb import Harness
    from . import cbor as C
    h = Harness(name, "C12", desc, timeout=1500, stub_utf8="assume")
    lo, hi = C.CLASS_RANGE[cls]
    v = h.sym_uint(lo, hi)
    node = C.Map([(C.Text("alg"), C.SymInt(v, cls, major)), (C.Text("type"), C.Text("public-key"))])
    msg = C.encode(node)
    h.sample = node.describe()
    h.add(*h.array_literal("msg", msg))
    h.add("let r: Result<ctap_types::webauthn::PublicKeyCredentialParameters, _> = cbor_deserialize(&msg);")
    val = ("(%s as i64)" % v) if major == 0 else ("(-1i64 - (%s as i64))" % v)
    h.add("match r {")
    h.add('    Ok(p) => { assert!(%s <= 0x7fff_ffff, "beyond the 32-bit signed range must be rejected"); assert!(p.alg as i64 == %s, "accepted algorithm identifier delivered unchanged (no wrap / sign change)"); }' % (v, val))
    h.add('    Err(_) => assert!(%s > 0x7fff_ffff, "an identifier within the 32-bit signed range must be accepted"),' % v)
    h.add("};")
    h.add('kani::cover!(true, "decoder returned");')
    h.unwind = 40
    h.bounds = {"message_bytes": len(msg), "unwind": 40}
    return h


# ---------------------------------------------------------------------------------- C13
def _filler(i):
    return 0x61 + (i * 7) % 26      # distinct-ish lower-case ASCII


def _text_with_window(h, L, wstart, wlen, prefix="w"):
    """L bytes of ASCII filler with a fully symbolic window [wstart, wstart+wlen) (clipped to L)"""
    ws, we = max(0, min(wstart, L)), max(0, min(wstart + wlen, L))
    exprs = [_filler(i) for i in range(L)]
    if we > ws:
        v, ex = h.sym_bytes(we - ws, prefix)
        for i in range(ws, we):
            exprs[i] = ex[i - ws]
    return exprs


def _c13_entity(name, kind, member, L, wstart, wlen, desc, tiers=BOTH, timeout=2400):
    """kind: user|rp ; member: name|display_name (user), name (rp)"""
    from .hb import Harness
    from . import cbor as C
    from .gen_req import fsa_for
    h = Harness(name, "C13", desc, tiers=tiers, timeout=timeout, stub_utf8="branch")
    txt = _text_with_window(h, L, wstart, wlen)
    h.add(*h.array_literal("txt", txt))
    if kind == "user":
        key = {"name": "name", "display_name": "displayName"}[member]
        idv, idex = h.sym_bytes(4, "id")
        node = C.Map([(C.Text("id"), C.Bytes(idex)), (C.Text(key), C.Text(txt))])
        rust = "ctap_types::webauthn::PublicKeyCredentialUserEntity"
    else:
        idv, idex = h.sym_ascii(4, "id")
        node = C.Map([(C.Text("id"), C.Text(idex)), (C.Text("name"), C.Text(txt))])
        rust = "ctap_types::webauthn::PublicKeyCredentialRpEntity"
    msg = C.encode(node)
    h.sample = node.describe()
    h.add(*h.array_literal("msg", msg))
    h.add("let valid = crate::utf8::is_valid(&txt);")
    h.add("let r: Result<%s, _> = cbor_deserialize(&msg);" % rust)
    h.add("match r {")
    h.add("    Ok(v) => {")
    h.add('        assert!(valid, "text that is not valid UTF-8 must be rejected");')
    h.add("        match &v.%s {" % member)
    h.add("            Some(s) => {")
    h.add("                let k = crate::utf8::floor_boundary(&txt, 64);")
    h.add('                assert!(s.len() <= 64, "never longer than 64 bytes");')
    h.add('                assert!(s.len() == k, "longest prefix <= 64 bytes that ends on a character boundary");')
    h.add('                assert!(eq(s.as_bytes(), &txt[..k]), "result is a prefix of the text sent");')
    h.add('                assert!(crate::utf8::is_valid(s.as_bytes()), "result is valid UTF-8");')
    h.add("            }")
    h.add('            None => assert!(false, "name sent but reported absent"),')
    h.add("        }")
    h.add("    }")
    h.add('    Err(_) => assert!(!valid, "valid UTF-8 of any length must be accepted"),')
    h.add("};")
    h.add('kani::cover!(valid, "some valid text");')
    if wlen and L > wstart:
        h.add('kani::cover!(!valid, "some ill-formed text");')
    h.fsa = fsa_for(max(len(msg), L))
    h.unwind = max(L, 68) + 6
    h.bounds = {"text_bytes": L, "symbolic_window": [max(0, min(wstart, L)), max(0, min(wstart + wlen, L))], "unwind": h.unwind}
    return h


def _c13_icon(name, kind, L, desc, tiers=BOTH):
    from .hb import Harness
    from . import cbor as C
    from .gen_req import fsa_for
    h = Harness(name, "C13", desc, tiers=tiers, timeout=2400, stub_utf8="branch")
    txt = _text_with_window(h, L, max(0, min(126, L - 4)), 4)
    h.add(*h.array_literal("txt", txt))
    if kind == "user":
        idv, idex = h.sym_bytes(4, "id")
        node = C.Map([(C.Text("id"), C.Bytes(idex)), (C.Text("icon"), C.Text(txt))])
        rust = "ctap_types::webauthn::PublicKeyCredentialUserEntity"
    else:
        idv, idex = h.sym_ascii(4, "id")
        node = C.Map([(C.Text("id"), C.Text(idex)), (C.Text("icon" if kind == "rp" else "url"), C.Text(txt))])
        rust = "ctap_types::webauthn::PublicKeyCredentialRpEntity"
    msg = C.encode(node)
    h.sample = node.describe()
    h.add(*h.array_literal("msg", msg))
    h.add("let valid = crate::utf8::is_valid(&txt);")
    h.add("let r: Result<%s, _> = cbor_deserialize(&msg);" % rust)
    h.add("match r {")
    h.add("    Ok(v) => {")
    h.add('        assert!(valid, "text that is not valid UTF-8 must be rejected");')
    if kind == "user":
        if L <= 128:
            h.add('        assert!(matches!(&v.icon, Some(s) if eq(s.as_bytes(), &txt)), "icon of at most 128 bytes kept verbatim");')
        else:
            h.add('        assert!(v.icon.is_none(), "over-long icon reported absent");')
        h.add('        assert!(eq(&v.id[..], &%s), "the rest of the entity is unaffected");' % idv)
    else:
        h.add('        assert!(v.icon.is_some(), "relying-party icon/url accepted (and discarded)");')
        h.add('        assert!(eq(v.id.as_bytes(), &%s) && v.name.is_none(), "the rest of the entity is unaffected");' % idv)
    h.add("    }")
    h.add('    Err(_) => assert!(!valid, "a valid icon of any length must not fail the value"),')
    h.add("};")
    h.add('kani::cover!(valid, "some valid text");')
    h.fsa = fsa_for(max(len(msg), L))
    h.unwind = max(L, 68) + 6
    h.bounds = {"icon_bytes": L, "unwind": h.unwind}
    return h


@register("C13", "g13", {
    "functions": ["webauthn::deserialize_from_str_and_truncate", "webauthn::truncate", "webauthn::floor_char_boundary (incl. the unsafe "
                  "unwrap_unchecked: Kani flags unreachable_unchecked)", "webauthn::is_utf8_char_boundary",
                  "webauthn::deserialize_from_str_and_skip_if_too_long", "impl Deserialize for webauthn::Icon",
                  "cbor_smol deserialize_str + core::str::from_utf8 (replaced by the reference validator stub)"],
    "bounds": "names of total length L in {0,1,60..72,100,300} whose bytes in a window straddling the 64-byte cut are FULLY symbolic "
              "(8 bytes 60..68 thorough / 4 bytes 62..66 quick: every arrangement of 1-4-byte characters, every alignment, every "
              "ill-formed sequence), ASCII filler elsewhere; a 4-byte symbolic window at further offsets (thorough); user name, user "
              "displayName, rp name; icons of 0/127/128/129/300 bytes; rp icon and legacy url",
    "out": "strings longer than 300 bytes; non-ASCII bytes outside the symbolic window (the routine inspects only bytes 61..=64); names "
           "inside whole MakeCredential / CredentialManagement messages are covered by the C01 templates (ASCII/UTF-8 by assumption)",
    "assumptions": ["core::str::from_utf8 replaced by harness/src/utf8.rs::from_utf8_ref (equivalence to std proved for all strings <= 6 bytes)"],
})
def plan_c13(tier, seed):
    hs, metas = [], []

    def add(h, configs="first"):
        hs.append(h)
        metas.append(G(h, configs))

    if tier == Q:
        combos = [("user", "name", L, 62, 4) for L in (64, 67)] + [("user", "name", L, 60, 6) for L in (65, 70)]
        combos += [("user", "display_name", 66, 61, 4), ("rp", "name", 65, 61, 5), ("user", "name", 0, 0, 0), ("user", "name", 63, 59, 4)]
    else:
        combos = [("user", "name", L, 60, 8) for L in (60, 61, 62, 63, 64, 65, 66, 67, 68, 69, 70, 71, 72, 100, 300)]
        combos += [("user", "display_name", L, 60, 8) for L in (64, 65, 68)] + [("rp", "name", L, 60, 8) for L in (64, 65, 68, 100)]
        combos += [("user", "name", 0, 0, 0), ("user", "name", 1, 0, 1)]
        combos += [("user", "name", 70, off, 4) for off in (0, 20, 40, 56, 66)]
    for kind, member, L, ws, wl in combos:
        add(_c13_entity("c13_%s_%s_len%d_w%d_%d" % (kind, member, L, ws, wl), kind, member, L, ws, wl,
                        "%s %s of %d bytes, bytes %d..%d fully symbolic: truncated on a character boundary / rejected iff ill-formed"
                        % (kind, member, L, ws, ws + wl)))
    for kind, L in ([("user", 128), ("user", 129), ("rp", 129), ("url", 40)] if tier == Q else
                    [("user", 0), ("user", 127), ("user", 128), ("user", 129), ("user", 300), ("rp", 0), ("rp", 128), ("rp", 129), ("rp", 300),
                     ("url", 5), ("url", 300)]):
        add(_c13_icon("c13_icon_%s_len%d" % (kind, L), kind, L, "%s icon of %d bytes" % (kind, L)))
    write_gen("C13", hs)
    return metas


# ---------------------------------------------------------------------------------- C14
@register("C14", "g14", {
    "functions": ["impl Deserialize for webauthn::FilteredPublicKeyCredentialParameters (visit_seq)",
                  "TryFrom<PublicKeyCredentialParameters> for KnownPublicKeyCredentialParameters", "webauthn::KNOWN_ALGS",
                  "impl Deserialize for ctap2::AttestationFormatsPreference (visit_seq)", "AttestationStatementFormat::try_from(&str)"],
    "bounds": "parameter lists over the alphabet {ES256, EdDSA, unknown algorithm, known algorithm + unknown type}: exhaustively all "
              "lists of length 0..=2 (quick) / 0..=3 (thorough), longer lists of 12, 13 and 20 entries; the unknown algorithm's argument "
              "symbolic over a whole 2-, 3- or 5-byte head class of either sign, the unknown type's 10 bytes symbolic (!= \"public-key\"); "
              "format lists over {packed, none, tpm, symbolic 6-byte text != packed, symbolic 4-byte text != none}: all lists of "
              "length 0..=2 (quick) / 0..=3 (thorough)",
    "out": "exhaustive lists of length 4-6; unknown algorithm identifiers inside -24..=23; type strings other than 10 bytes long",
})
def plan_c14(tier, seed):
    import itertools
    from .gen_req import nested_harness
    from .types import Variation
    from . import spec
    hs, metas = [], []

    def add(h, configs="first"):
        hs.append(h)
        metas.append(G(h, configs))

    fp = spec.TFilteredParams()
    alpha = ["es256", "eddsa", "unkalg", "unktype"]
    maxlen = 2 if tier == Q else 3
    lists = [()]
    for n in range(1, maxlen + 1):
        lists += list(itertools.product(alpha, repeat=n))
    extra = [("unkalg",) * 10 + ("eddsa", "es256"), ("unktype",) * 11 + ("es256", "eddsa"), ("es256",) * 20,
             ("es256", "es256", "eddsa"), ("unkalg", "eddsa", "unktype", "es256", "eddsa"), ("es256", "eddsa", "es256", "unkalg"),
             ("eddsa", "eddsa", "eddsa", "unktype", "es256")]
    unk_classes = [(1, 1), (2, 1), (4, 1), (1, 0), (2, 0), (4, 0)]
    seen_lists = set()
    for i, kinds in enumerate(lists + extra):
        if tuple(kinds) in seen_lists:
            continue
        seen_lists.add(tuple(kinds))
        cls = unk_classes[(i + seed) % len(unk_classes)]
        var = Variation(choose={"filteredparams": list(kinds), "filteredparams#unk": cls}, seed=seed)
        nm = "c14_params_%s" % ("_".join(k[:3] + k[-1] for k in kinds) if len(kinds) <= 6 else "long%d_%d" % (len(kinds), i))
        add(nested_harness(nm if kinds else "c14_params_empty", "C14", fp, var,
                           "pubKeyCredParams list [%s]: first two (public-key, ES256|EdDSA) entries in order, never an error" % ", ".join(kinds)))
    ap = spec.TAttFmtPref()
    falpha = ["packed", "none", "tpm", "sym6", "sym4"]
    flists = [()]
    for n in range(1, maxlen + 1):
        flists += list(itertools.product(falpha, repeat=n))
    flists += [("tpm", "sym6", "none", "packed", "none"), ("packed",) * 5]
    for kinds in flists:
        var = Variation(choose={"attfmtpref": list(kinds)}, seed=seed)
        nm = "c14_formats_%s" % ("_".join(kinds) if kinds else "empty")
        add(nested_harness(nm, "C14", ap, var,
                           "attestation format preference list [%s]: known formats in order (first two), unknown flag" % ", ".join(kinds)))
    write_gen("C14", hs)
    return metas


# ---------------------------------------------------------------------------------- C06
def unknown_values(h):
    """(name, node) pairs drawn from the definite-length CBOR grammar; contents symbolic where any"""
    from . import cbor as C
    vals = []
    u1 = h.sym_uint(24, 255)
    u4 = h.sym_uint(0x10000, 0xFFFFFFFF)
    u8 = h.sym_uint(0x100000000, 0xFFFFFFFFFFFFFFFF)
    bv, bex = h.sym_bytes(5, "ub")
    tv, tex = h.sym_bytes(5, "ut")     # text contents are skipped, not validated: any bytes
    fv, fex = h.sym_bytes(8, "uf")
    nest = C.UInt(7)
    for _ in range(16):
        nest = C.Array([nest])
    vals += [
        ("uint_small", C.UInt(5)), ("uint_1", C.SymInt(u1, 1)), ("uint_4", C.SymInt(u4, 4)), ("uint_8", C.SymInt(u8, 8)),
        ("nint_1", C.SymInt(u1, 1, C.MT_NINT)), ("nint_8", C.SymInt(u8, 8, C.MT_NINT)),
        ("bytes", C.Bytes(bex)), ("text", C.Text(tex)), ("empty_bytes", C.Bytes([])),
        ("array", C.Array([C.UInt(1), C.Text("a"), C.Bytes(bex[:2])])), ("empty_array", C.Array([])),
        ("map", C.Map([(C.UInt(1), C.UInt(2)), (C.Text("k"), C.Bytes(bex[2:4]))])), ("empty_map", C.Map([])),
        ("nested_map", C.Map([(C.Text("a"), C.Map([(C.Text("b"), C.Array([C.Map([]), C.UInt(1)]))]))])),
        ("tag_bytes", C.Tag(24, C.Bytes(bex[:3]))), ("tag_nested", C.Tag(1, C.Tag(2, C.UInt(3)))),
        ("float16", C.Raw([0xF9] + fex[:2], "float16")), ("float32", C.Raw([0xFA] + fex[:4], "float32")),
        ("float64", C.Raw([0xFB] + fex[:8], "float64")),
        ("false", C.Bool(False)), ("true", C.Bool(True)), ("null", C.Null()), ("undefined", C.Raw([0xF7], "undefined")),
        ("simple16", C.Raw([0xF0], "simple(16)")), ("simple255", C.Raw([0xF8, 0xFF], "simple(255)")),
        ("depth16", nest), ("string300", C.Text([0x61] * 300)),
        ("transports", C.Array([C.Text("usb"), C.Text("nfc"), C.Text("ble")])),
        ("credBlob", C.Bytes(bex)), ("minPinLength", C.Bool(True)), ("credProps", C.Bool(True)),
        ("prf", C.Map([(C.Text("eval"), C.Map([(C.Text("first"), C.Bytes(fex))]))])),
        ("hmac_secret_mc", C.Map([(C.UInt(1), C.Map([(C.UInt(1), C.UInt(2))])), (C.UInt(2), C.Bytes(bex))])),
    ]
    return vals


@register("C06", "g06", {
    "functions": ["serde derive visit_map of AuthenticatorOptions, make_credential::Extensions, get_assertion::ExtensionsInput, "
                  "PublicKeyCredentialRpEntity, PublicKeyCredentialUserEntity, PublicKeyCredentialDescriptorRef, PublicKeyCredentialParameters",
                  "cbor_smol::de::Deserializer::{deserialize_ignored_any, ignore, ignore_array, ignore_bytes, ignore_int, ignore_float}"],
    "bounds": "host maps: options, MakeCredential / GetAssertion extensions, rp, user, descriptor (stand-alone, inside an allow list, "
              "inside a CredentialManagement request), pubKeyCredParams entry; one unknown text-keyed member inserted at every position "
              "(first / between each pair / last); unknown values: 33 shapes of the definite-length grammar (every major type, 1/2/5/9-byte "
              "heads with symbolic arguments, tags incl. nested, half/single/double floats with symbolic payload, simple values, nesting "
              "depth 16, a 300-byte string, transports / credBlob / minPinLength / credProps / prf / hmac-secret-mc) with symbolic contents; "
              "the decoded value is compared member by member with the model of the same message without the unknown member",
    "out": "symbolic unknown KEYS (a symbolic key makes the field match symbolic: the key set is {\"zz\", \"transports\", a 32-byte key}); "
           "several unknown members at once (thorough tier has one two-member instance per host); unknown values larger than 300 bytes",
})
def plan_c06(tier, seed):
    from .gen_fault import nested_accept, accept_harness, insert_entry, get
    from .hb import Harness
    from .types import Variation
    from . import spec, cbor as C
    hs, metas = [], []

    def add(h, configs="first"):
        hs.append(h)
        metas.append(G(h, configs))

    hosts = [(spec.AUTH_OPTIONS, "options"), (spec.MC_EXT, "mcext"), (spec.GA_EXT_IN, "gaext"), (spec.RP, "rp"), (spec.USER, "user"),
             (spec.DESC_REF, "descref"), (spec.PARAMS, "params")]
    nvals = len(unknown_values(Harness("x", "C06", "")))
    keys = ["zz", "transports", "k" * 32]
    idx = 0
    for schema, tag in hosts:
        nent = len([f for f in schema.fields if not f.private and not f.feature])
        positions = list(range(nent + 1))
        if tier == Q:
            combos = [(pos, (idx + 7 * pos + seed) % nvals) for pos in positions]
        else:
            combos = [(pos, vi) for pos in positions for vi in range(nvals) if (vi + pos) % len(positions) == 0 or vi < 6]
        REAL = {"transports": "transports", "credBlob": "credBlob", "minPinLength": "minPinLength", "credProps": "credProps",
                "prf": "prf", "hmac_secret_mc": "hmac-secret-mc"}
        vnames = [n for n, _ in unknown_values(Harness("x", "C06", ""))]
        if tier == Q and tag in ("mcext", "gaext"):
            # the extension maps additionally get every real-world extra under its real key
            combos = combos + [((i + seed) % (nent + 1), vnames.index(n)) for i, n in enumerate(REAL)]
        for pos, vi in combos:
            idx += 1
            key = REAL.get(vnames[vi], keys[(pos + vi) % len(keys)])

            def change(t, ctx, pos=pos, vi=vi, key=key):
                name, val = unknown_values(ctx.h)[vi]
                ctx.h._uname = name
                return insert_entry(t, [], min(pos, len(t.entries)), C.Text(key), val)
            var = Variation(default_present="all", intclass=0, seed=seed, present={schema.name: [f.rust for f in schema.fields if not f.required and not f.feature and not f.private]})
            h = nested_accept("c06_%s_pos%d_%s" % (tag, pos, vnames[vi]), "C06", schema, var, change,
                              "%s with an unknown member %r inserted at position %d" % (tag, key, pos), timeout=1800)
            h.desc += ", value shape: %s" % getattr(h, "_uname", "?")
            add(h)
    # inside whole requests: descriptor in an allow list, options + extensions in MakeCredential, user in CredentialManagement
    whole = [(0x02, "ga", {"ga": ["allow_list", "options"]}, [3, 0], "transports", 27), (0x01, "mc", {"mc": ["options", "extensions"]}, [7], "zz", 11),
             (0x01, "mc", {"mc": ["options", "extensions"]}, [6], "credBlob", 28), (0x0A, "cm", {"cm": ["sub_command_params"], "cmparams": ["user"]}, [2, 3], "zz", 13),
             (0x01, "mc", {"mc": []}, [2], "zz", 25), (0x01, "mc", {"mc": []}, [4, 0], "transports", 9)]
    for cmd, tag, pres, path, key, vi in (whole if tier == T else whole[:4]):
        def change(t, ctx, path=path, key=key, vi=vi):
            name, val = unknown_values(ctx.h)[vi]
            return insert_entry(t, path, len(get(t, path).entries), C.Text(key), val)   # last position: what follows must survive
        var = Variation(default_present="none", present=pres, intclass=0, seed=seed)
        add(accept_harness("c06_req_%s_%s_v%d" % (tag, "_".join(str(x) for x in path), vi), "C06", cmd, var, change,
                           "%s request with an unknown member %r inside the map at %s" % (tag, key, path), via="request", timeout=2400))
    write_gen("C06", hs)
    return metas


# ---------------------------------------------------------------------------------- C04
C04_PRELUDE = '''
use ctap_types::webauthn::{PublicKeyCredentialDescriptorRef, PublicKeyCredentialParameters};

/// leaf decoders on FULLY symbolic bytes of symbolic length: no panic, no overflow, no
/// out-of-bounds, termination (unwinding assertions), and the same bytes give the same result
macro_rules! leaf {
    ($name:ident, $ty:ty, $n:expr, $unwind:expr) => {
        #[kani::proof]
        #[kani::unwind($unwind)]
        #[kani::stub(core::str::from_utf8, crate::utf8::from_utf8_ref)]
        fn $name() {
            let buf: [u8; $n] = kani::any();
            let n: usize = kani::any();
            kani::assume(n <= $n);
            let r1 = cbor_deserialize::<$ty>(&buf[..n]);
            let r2 = cbor_deserialize::<$ty>(&buf[..n]);
            let s1 = cbor_status(&r1);
            assert!(s1 == 0 || s1 == 0x12 || s1 == 0x14, "status in the three-element set");
            assert!(s1 == cbor_status(&r2), "same bytes, same result");
            kani::cover!(s1 == 0, "some input accepted");
            kani::cover!(s1 == 0x12, "some input rejected");
        }
    };
}
leaf!(c04_leaf_u8, u8, 4, 8);
leaf!(c04_leaf_u32, u32, 6, 8);
leaf!(c04_leaf_u64, u64, 10, 12);
leaf!(c04_leaf_i32, i32, 6, 8);
leaf!(c04_leaf_bool, bool, 2, 4);
leaf!(c04_leaf_str, &str, 8, 12);
leaf!(c04_leaf_bytes_ref, &serde_bytes::Bytes, 8, 12);
leaf!(c04_leaf_bytes4, ctap_types::Bytes<4>, 8, 12);
leaf!(c04_leaf_string4, ctap_types::String<4>, 8, 12);
leaf!(c04_leaf_bytearray4, serde_bytes::ByteArray<4>, 8, 12);
leaf!(c04_leaf_icon, ctap_types::webauthn::Icon, 8, 12);
leaf!(c04_leaf_version, ctap2::get_info::Version, 10, 14);
leaf!(c04_leaf_attfmt, ctap2::AttestationStatementFormat, 8, 12);
leaf!(c04_leaf_pin_subcommand, ctap2::client_pin::PinV1Subcommand, 4, 8);
leaf!(c04_leaf_attfmtpref, ctap2::AttestationFormatsPreference, 6, 10);
leaf!(c04_leaf_params, PublicKeyCredentialParameters, 3, 6);

/// the generic skipper on a fully symbolic item of <= 3 bytes (5 bytes: out of memory) (reached through an unknown
/// member of the options map): `{"zz": <item>}`
#[kani::proof]
#[kani::unwind(6)]
#[kani::stub(core::str::from_utf8, crate::utf8::from_utf8_ref)]
fn c04_skipper_symbolic_item() {
    let v: [u8; 3] = kani::any();
    let msg = [0xa1u8, 0x62, 0x7a, 0x7a, v[0], v[1], v[2]];
    let r = cbor_deserialize::<ctap2::AuthenticatorOptions>(&msg);
    let s = cbor_status(&r);
    assert!(s == 0 || s == 0x12 || s == 0x14);
    if let Ok(o) = &r {
        assert!(o.rk.is_none() && o.up.is_none() && o.uv.is_none(), "an unknown member sets nothing");
    }
    kani::cover!(s == 0, "some item skipped");
    kani::cover!(s == 0x12, "some item rejected");
}

/// deep nesting of arrays / maps / tags inside a skipped member (recursion of the skipper)
#[kani::proof]
#[kani::unwind(70)]
#[kani::stub(core::str::from_utf8, crate::utf8::from_utf8_assume_valid)]
fn c04_skipper_deep_nesting() {
    // {"zz": [[[...64 deep...[1]...]]], "up": true}
    let mut msg = [0u8; 4 + 64 + 1 + 4];
    msg[0] = 0xa2;
    msg[1] = 0x62;
    msg[2] = 0x7a;
    msg[3] = 0x7a;
    let mut i = 0;
    while i < 64 {
        msg[4 + i] = match i % 3 { 0 => 0x81, 1 => 0xc1, _ => 0x81 };
        i += 1;
    }
    msg[68] = 0x01;
    msg[69] = 0x62;
    msg[70] = 0x75;
    msg[71] = 0x70;
    msg[72] = 0xf5;
    let r = cbor_deserialize::<ctap2::AuthenticatorOptions>(&msg);
    assert!(matches!(&r, Ok(o) if o.up == Some(true) && o.rk.is_none()), "deeply nested unknown value skipped exactly");
    kani::cover!(true, "reached");
}
'''


@register("C04", "g04", {
    "functions": ["ctap_types::ctap2::Request::deserialize (all arms)", "cbor_smol::de::* incl. ignore/ignore_array", "serde-indexed / serde derive "
                  "visitors of every request and nested type", "webauthn custom deserialisers (truncate, floor_char_boundary with its unsafe "
                  "unwrap_unchecked, skip-if-too-long, filtered parameters)", "AttestationFormatsPreference::deserialize"],
    "bounds": "Kani's implicit checks (panic/unwrap/expect, slice index, arithmetic overflow, invalid pointer, unreachable_unchecked) and "
              "unwinding assertions (termination) on: (1) 15 leaf decoders on FULLY symbolic bytes (4-10 bytes, symbolic length) incl. "
              "determinism; (2) the whole decoder on the full-presence template of every command truncated at enumerated cut points (item "
              "boundaries -1/0/+1), all contents symbolic incl. ill-formed UTF-8; (3) the whole decoder on 1 and 2 (thorough: 3 for the small "
              "commands) fully symbolic payload bytes after each parameter-bearing command byte; (4) members grown far beyond capacity (300-byte "
              "names/icons, 257-byte rp id, 17/33-entry lists, 33-byte type strings); (5) the skipper on 64-deep concrete nesting (a fully symbolic item through the recursive skipper exhausts memory "
              "even at 3 bytes: outside the bound); every status observed is asserted to be 0x01/0x12/0x14",
    "out": "arbitrary byte strings longer than 10 bytes that are not a template with symbolic contents; fully symbolic payloads longer than "
           "2-3 bytes through the whole decoder (measured intractable); stack exhaustion on 7609-byte nesting (a resource property CBMC "
           "does not model)",
    "assumptions": ["core::str::from_utf8 replaced by the reference validator stub: both outcomes explored in the leaf / window / growth "
                    "instances; in the whole-template instances text contents are well-formed by assumption (several independently "
                    "ill-formed texts in one message are intractable)"],
})
def plan_c04(tier, seed):
    from .gen_fault import status_harness, nested_accept
    from .hb import Harness
    from .types import Variation, Ctx
    from . import spec, cbor as C
    hs, metas = [], []

    def add(h, configs="rich"):
        hs.append(h)
        metas.append(G(h, configs))

    # (2) truncation of full templates
    for cmd, tag in ((0x0C, "lb"), (0x06, "cp"), (0x0A, "cm"), (0x02, "ga"), (0x01, "mc")):
        schema, variant = spec.REQUESTS[cmd]
        sh = Harness("scratch", "C04", "")
        tree = schema.cbor(schema.make(Ctx(sh, Variation(default_present="all", intclass=0, seed=seed)), schema.name))
        enc = C.encode(tree)
        cuts = sorted({c for b in _boundaries(tree) for c in (b - 1, b, b + 1) if 0 <= c < len(enc)})
        for cut in pick(cuts, tier, seed, 3 if tag in ("mc", "ga") else 4):
            add(status_harness("c04_%s_trunc_%d" % (tag, cut), "C04", cmd, Variation(default_present="all", intclass=0, seed=seed),
                               (lambda cut=cut: (lambda t: C.encode(t)[:cut]))(), None,
                               "%s full template truncated after %d of %d bytes, contents symbolic (incl. ill-formed UTF-8)" % (variant, cut, len(enc)),
                               timeout=2400))
        # the complete template with ill-formed UTF-8 allowed
        add(status_harness("c04_%s_full_anytext" % tag, "C04", cmd, Variation(default_present="all", intclass=0, seed=seed, text="ascii"),
                           (lambda t: t), None, "%s full template, all contents symbolic" % variant, timeout=2400), configs="all")
    # (2b) names straddling the 64-byte cut with a fully symbolic window: the unsafe unwrap_unchecked in
    # floor_char_boundary and the slice in truncate must never fault
    for L, ws, wl in (((65, 60, 6), (70, 60, 6)) if tier == Q else ((65, 60, 8), (66, 60, 8), (67, 60, 8), (68, 60, 8), (70, 60, 8), (300, 60, 8))):
        hh = _c13_entity("c04_name_len%d_w%d_%d" % (L, ws, wl), "user", "name", L, ws, wl,
                         "user name of %d bytes, bytes %d..%d fully symbolic: no panic / no unsafe precondition violated while truncating" % (L, ws, ws + wl))
        hh.prop = "C04"
        add(hh, configs="first")
    # (4) growth far beyond capacity
    GROW = [(spec.USER, "user.name", 300, {"user": ["name"]}), (spec.USER, "user.icon", 300, {"user": ["icon"]}), (spec.RP, "rp.id", 257, {"rp": []}),
            (spec.RP, "rp.icon", 300, {"rp": ["icon"]}), (spec.PARAMS, "params.key_type", 33, {}), (spec.USER, "user.id", 300, {"user": []})]
    for schema, path, ln, pres in (GROW if tier == T else [(spec.USER, "user.icon", 200, {"user": ["icon"]}), (spec.RP, "rp.id", 257, {"rp": []})]):
        var = Variation(present=dict(pres), default_present="none", intclass=0, lens={path: ln}, seed=seed, text="ascii")
        add(nested_accept("c04_grow_%s_%d" % (path.replace(".", "_"), ln), "C04", schema, var, (lambda t: t),
                          "%s grown to %d bytes: error or documented lossy result, never a crash" % (path, ln), stub="branch", expect_status="any"), configs="first")
    for cmd, tag, fld, path, cnt in ((0x02, "ga", "allow_list", "ga.allow_list", 17), (0x01, "mc", "exclude_list", "mc.exclude_list", 33)):
        lens = {path + "#count": cnt}
        for i in range(cnt):
            lens["%s[%d].id" % (path, i)] = 1
            lens["%s[%d].key_type" % (path, i)] = 1
        add(status_harness("c04_grow_%s_%d" % (fld, cnt), "C04", cmd, Variation(present={tag: [fld]}, default_present="none", intclass=0, lens=lens, seed=seed),
                           (lambda t: t), None, "%s with %d entries: rejected, never a crash" % (fld, cnt), stub="assume", timeout=2400), configs="first")
    write_gen("C04", hs, prelude=C04_PRELUDE + _c04_symbolic_payloads(tier))
    # (c04_leaf_params and c04_skipper_symbolic_item exist in the module but are not planned: a symbolic-LAYOUT item through the
    # recursive skipper exhausts 14 GB even at 3 bytes; skipped values with concrete layout and symbolic contents are C06's subject)
    leafs = ["u8", "u32", "u64", "i32", "bool", "str", "bytes_ref", "bytes4", "string4", "bytearray4", "icon", "version", "attfmt", "pin_subcommand",
             "attfmtpref"]
    for n in leafs:
        metas.append(S("c04_leaf_" + n, "cbor_deserialize::<%s> on fully symbolic bytes of symbolic length" % n, configs="first", sym=8, timeout=2400))
    metas.append(S("c04_skipper_deep_nesting", "unknown member nested 64 deep (arrays/tags)", configs="first", fsa=80))
    for cmd in (0x06, 0x0A, 0x0C, 0x41):     # 0x01 / 0x02: out of memory already with one symbolic payload byte
        for n in ((1, 2, 3) if tier == T and cmd in (0x06, 0x0A, 0x0C) else (1, 2)):
            metas.append(S("c04_payload_%02x_%d" % (cmd, n), "Request::deserialize on command 0x%02x followed by %d fully symbolic payload byte(s)" % (cmd, n),
                           configs="first", sym=n, timeout=3000, tiers=BOTH if n == 1 else (T,)))
    return metas


def _c04_symbolic_payloads(tier):
    out = []
    for cmd in (0x01, 0x02, 0x06, 0x0A, 0x0C, 0x41):
        for n in (1, 2, 3):
            bs = ", ".join("p[%d]" % i for i in range(n))
            out.append('''
#[kani::proof]
#[kani::unwind(12)]
#[kani::stub(core::str::from_utf8, crate::utf8::from_utf8_ref)]
fn c04_payload_%02x_%d() {
    let p: [u8; %d] = kani::any();
    let msg = [0x%02xu8, %s];
    let st = status(&Request::deserialize(&msg));
    assert!(st == 0 || st == 0x12 || st == 0x14, "a supported command never answers InvalidCommand; status in the set");
    kani::cover!(st == 0x12, "rejected");
}
''' % (cmd, n, n, cmd, bs))
    return "\n".join(out)


# ---------------------------------------------------------------------------------- C03
C03_PRELUDE = '''
/// reference shortest-form head for (major, value)
fn ref_head(major: u8, v: u64, out: &mut [u8; 9]) -> usize {
    let m = major << 5;
    if v < 24 {
        out[0] = m | v as u8;
        1
    } else if v <= 0xff {
        out[0] = m | 24;
        out[1] = v as u8;
        2
    } else if v <= 0xffff {
        out[0] = m | 25;
        out[1] = (v >> 8) as u8;
        out[2] = v as u8;
        3
    } else if v <= 0xffff_ffff {
        out[0] = m | 26;
        out[1] = (v >> 24) as u8;
        out[2] = (v >> 16) as u8;
        out[3] = (v >> 8) as u8;
        out[4] = v as u8;
        5
    } else {
        out[0] = m | 27;
        let mut i = 0;
        while i < 8 {
            out[1 + i] = (v >> (56 - 8 * i)) as u8;
            i += 1;
        }
        9
    }
}

macro_rules! int_head {
    ($name:ident, $ty:ty) => {
        /// every value of the type serialises with the shortest-form head (all magnitudes
        /// across the 24 / 256 / 65536 / 2^32 thresholds, both signs where signed)
        #[kani::proof]
        #[kani::unwind(12)]
        fn $name() {
            let x: $ty = kani::any();
            let mut buf = [0u8; 12];
            let out = cbor_serialize(&x, &mut buf).unwrap();
            let mut exp = [0u8; 9];
            let xi = x as i128;
            let n = if xi >= 0 { ref_head(0, xi as u64, &mut exp) } else { ref_head(1, (-1 - xi) as u64, &mut exp) };
            assert!(out.len() == n, "shortest-form integer head (length)");
            assert!(eq(out, &exp[..n]), "shortest-form integer head (bytes)");
            kani::cover!(n > 1, "multi-byte head reachable");
            kani::cover!(n == 1, "1-byte head reachable");
        }
    };
}
int_head!(c03_int_u8, u8);
int_head!(c03_int_u16, u16);
int_head!(c03_int_u32, u32);
int_head!(c03_int_u64, u64);
int_head!(c03_int_usize, usize);
int_head!(c03_int_i8, i8);
int_head!(c03_int_i16, i16);
int_head!(c03_int_i32, i32);
int_head!(c03_int_i64, i64);

macro_rules! len_head {
    ($name:ident, $n:expr) => {
        /// byte/text string length prefixes are shortest-form across the 24 / 256 thresholds
        #[kani::proof]
        #[kani::unwind(310)]
        fn $name() {
            let c: [u8; $n] = kani::any();
            let b = ctap_types::Bytes::<300>::from_slice(&c).unwrap();
            let mut buf = [0u8; 310];
            let out = cbor_serialize(&b, &mut buf).unwrap();
            let mut exp = [0u8; 9];
            let h = ref_head(2, $n as u64, &mut exp);
            assert!(out.len() == h + $n && eq(&out[..h], &exp[..h]) && eq(&out[h..], &c), "definite, shortest-form length prefix");
            kani::cover!(true, "reached");
        }
    };
}
len_head!(c03_len_0, 0);
len_head!(c03_len_23, 23);
len_head!(c03_len_24, 24);
len_head!(c03_len_255, 255);
len_head!(c03_len_256, 256);
'''


@register("C03", "g03", {
    "functions": ["cbor_smol::ser (write heads, serialize_map/struct/seq)", "serde derive Serialize of CtapOptions, Certifications, "
                  "AuthenticatorOptions, make_credential::Extensions, get_assertion::ExtensionsInput/ExtensionsOutput, rp/user entity, "
                  "descriptor, parameters, PackedAttestationStatement", "SerializeIndexed of every response struct and HmacSecretInput",
                  "cosey RawPublicKey::serialize"],
    "bounds": "for every text-keyed map type: the instance with ALL members present and (thorough: every; quick: a seed-determined sample "
              "of) PAIRS of optional members, byte-for-byte against a reference encoding that is itself verified canonical at generation "
              "time (definite lengths, shortest heads, keys sorted by major type / length / bytes, single item, no tags/floats); integer-keyed "
              "response maps with all members and adjacent pairs; all values symbolic; every integer type's whole value range "
              "against a reference shortest-form head; byte-string length prefixes at 0/23/24/255/256; all four COSE key kinds",
    "out": "bodies larger than ~300 bytes; subsets other than pairs and the full set (emission is in declaration order, so all subsets "
           "are sorted iff all pairs are)",
})
def plan_c03(tier, seed):
    import itertools
    from .gen_resp import value_harness, encode_harness
    from .types import Variation
    from . import spec
    hs, metas = [], []

    def add(h, configs="rich"):
        hs.append(h)
        metas.append(G(h, configs))

    types = [(spec.CTAP_OPTIONS, "ctapoptions"), (spec.CERTIFICATIONS, "certs"), (spec.MC_EXT, "mcext"), (spec.GA_EXT_OUT, "gaextout"),
             (spec.RP, "rp"), (spec.USER, "user"), (spec.DESC, "desc"), (spec.PARAMS, "params"), (spec.AUTH_OPTIONS, "options"),
             (spec.GA_EXT_IN, "gaext"), (spec.HMAC_INPUT, "hmacin")]
    for schema, tag in types:
        opts_all = [f for f in schema.fields if not f.required and not f.private and not f.skip_ser]
        for featset in ({None}, {None, spec.GIF, spec.TPP}):
            opts = [f.rust for f in opts_all if f.feature in featset]
            if featset != {None} and opts == [f.rust for f in opts_all if f.feature is None]:
                continue
            sfx = "" if featset == {None} else "_feat"
            var = Variation(present={schema.name: opts}, default_present="all", intclass=0, maxlen=6, text="ascii", seed=seed)
            add(value_harness("c03_%s_all%s" % (tag, sfx), "C03", schema, var,
                              "%s with all %d optional members%s present: canonical key order at every level" % (tag, len(opts), " (incl. feature-gated)" if sfx else ""),
                              symbool=len(opts) <= 8),   # 19 symbolic booleans exhaust memory; the order is the subject here
                configs="all")
            pairs = list(itertools.combinations(opts, 2))
            if sfx:   # only pairs that involve a feature-gated member (the others exist already)
                free = {f.rust for f in opts_all if f.feature is None}
                pairs = [(a, b) for a, b in pairs if not (a in free and b in free)]
            for a, b in pick(pairs, tier, seed, 6 if len(pairs) > 6 else len(pairs)):
                var = Variation(present={schema.name: [a, b]}, default_present="none", intclass=0, maxlen=6, text="ascii", seed=seed)
                add(value_harness("c03_%s_pair_%s__%s" % (tag, a, b), "C03", schema, var, "%s with optional members %s and %s" % (tag, a, b)))
    # attestation statement shapes and COSE keys through the responses that carry them
    for shape in ("none", "packed", "packed+x5c"):
        var = Variation(present={"mcresp": ["att_stmt"]}, default_present="none", intclass=0, maxlen=8, seed=seed, choose={"mcresp.att_stmt": shape},
                        lens={"mcresp.att_stmt.sig": 8, "mcresp.att_stmt.x5c": 8})
        add(encode_harness("c03_attstmt_%s" % shape.replace("+", "_"), "C03", "MakeCredential", var, "MakeCredential response with a %s attestation statement" % shape, via="direct"))
    for kind in ("p256", "ecdh", "ed25519", "totp"):
        var = Variation(present={"cmresp": ["public_key"]}, default_present="none", intclass=0, seed=seed, choose={"cmresp.public_key": kind})
        add(encode_harness("c03_cose_%s" % kind, "C03", "CredentialManagement", var, "CredentialManagement response carrying a %s COSE key (1, 3, -1, -2, -3 order)" % kind, via="direct"))
    # integer-keyed response maps: everything present where that is tractable (ClientPin, MakeCredential, GetInfo without the
    # feature-gated members); the all-members instances of CredentialManagement / GetAssertion / GetInfo+get-info-full exhaust
    # memory (> 14 GB), so those maps are covered by pairs of members (all pairs in the thorough tier)
    for kind in ("ClientPin", "MakeCredential", "GetInfo"):
        schema = spec.RESPONSES[kind]
        opts = [f.rust for f in schema.fields if not f.required and not f.private and f.feature is None]
        var = Variation(present={schema.name: opts}, default_present="none", intclass=0, maxlen=4, text="ascii", seed=seed)
        add(encode_harness("c03_resp_%s_all" % schema.name, "C03", kind, var, "%s response with every feature-independent member set (nested optional members absent)" % kind,
                           via="direct", timeout=2400), configs="first")
    for kind in ("CredentialManagement", "GetAssertion", "GetInfo"):
        schema = spec.RESPONSES[kind]
        opts = [f.rust for f in schema.fields if not f.required and not f.private]
        pairs = list(itertools.combinations(opts, 2))
        if kind == "GetInfo":
            pairs = [(a, b) for a, b in pairs if schema.field(a).feature or schema.field(b).feature]
        for a, b in pick(pairs, tier, seed, 6, 60):
            var = Variation(present={schema.name: [a, b]}, default_present="none", intclass=0, maxlen=4, text="ascii", seed=seed)
            add(encode_harness("c03_resp_%s_pair_%s__%s" % (schema.name, a, b), "C03", kind, var,
                               "%s response with members %s and %s: ascending integer keys" % (kind, a, b), via="direct"))
    write_gen("C03", hs, prelude=C03_PRELUDE)
    for n in ("u8", "u16", "u32", "u64", "usize", "i8", "i16", "i32", "i64"):
        metas.append(S("c03_int_" + n, "cbor_serialize of every %s value: shortest-form head" % n, configs="first", sym=8))
    for n in (0, 23, 24, 255, 256):
        metas.append(S("c03_len_%d" % n, "byte string of %d bytes: shortest-form definite length prefix" % n, configs="first", sym=n, fsa=320, tiers=BOTH if n in (23, 24) else (T,)))
    return metas


# ---------------------------------------------------------------------------------- C15
def _roundtrip_de_en(name, prop, schema, var, desc, cmdbyte=None, tiers=BOTH, timeout=1800):
    """canonical reference bytes -> decode -> encode == the same bytes"""
    from .hb import Harness
    from .types import Ctx
    from . import cbor as C
    from .gen_req import fsa_for
    h = Harness(name, prop, desc, tiers=tiers, timeout=timeout, stub_utf8="assume")
    ctx = Ctx(h, var)
    m = schema.make(ctx, schema.name)
    node = schema.cbor_ser(m) if hasattr(schema, "cbor_ser") else schema.cbor(m)
    msg = C.encode(node)
    assert C.check_canonical(msg) == len(msg)
    h.requires = tuple(sorted(ctx.requires))
    h.sample = node.describe()
    h.add(*h.array_literal("msg", msg))
    h.add("let r: Result<%s, _> = cbor_deserialize(&msg);" % schema.rust)
    h.add("match r {")
    h.add("    Ok(val) => {")
    h.add("        let mut outbuf = [0u8; %d];" % (len(msg) + 8))
    h.add("        match cbor_serialize(&val, &mut outbuf) {")
    h.add("            Ok(out) => {")
    h.add('                assert!(out.len() == msg.len(), "re-encoding a value decoded from canonical bytes reproduces their length");')
    h.add('                assert!(eq(out, &msg), "re-encoding a value decoded from canonical bytes reproduces those bytes");')
    h.add("            }")
    h.add('            Err(_) => assert!(false, "decoded value must re-encode"),')
    h.add("        }")
    h.add('        kani::cover!(true, "round trip completed");')
    h.add("    }")
    h.add('    Err(_) => assert!(false, "canonical reference bytes must decode"),')
    h.add("};")
    h.fsa = fsa_for(len(msg) + 8)
    h.unwind = max(h.maxlen, len(msg), 32) + 4
    h.bounds = {"message_bytes": len(msg), "unwind": h.unwind, "type": schema.rust, "direction": "decode->encode"}
    return h


def _roundtrip_en_de(name, prop, schema, var, desc, tiers=BOTH, timeout=1800):
    """value built through the public API -> encode -> decode == the value (member by member)"""
    from .hb import Harness
    from .types import Ctx
    from . import cbor as C
    from .gen_req import fsa_for
    h = Harness(name, prop, desc, tiers=tiers, timeout=timeout, stub_utf8="assume")
    h.encode_side = True
    var.symbool = False          # the decode half sits behind Option<bool> (see TBool.make)
    ctx = Ctx(h, var)
    m = schema.make(ctx, schema.name)
    v = schema.build(ctx, m)
    node = schema.cbor_ser(m) if hasattr(schema, "cbor_ser") else schema.cbor(m)
    exp = C.encode(node)
    n = len(exp)
    h.requires = tuple(sorted(ctx.requires))
    h.sample = node.describe()
    h.add(*h.array_literal("exp", exp))
    h.add("let mut outbuf = [0u8; %d];" % (n + 8))
    h.add("let out = match cbor_serialize(&%s, &mut outbuf) { Ok(o) => o, Err(_) => { assert!(false, \"value must encode\"); return; } };" % v)
    # The bytes the encoder produced have symbolic layout as far as CBMC can tell and cannot be fed to the decoder
    # (measured: out of memory even for an empty response).  They are first proved equal to the reference encoding
    # `exp`; decoding `exp` is then decoding `out`.
    h.add('assert!(out.len() == exp.len() && eq(out, &exp), "encoding differs from the reference encoding");')
    h.add("let r: Result<%s, _> = cbor_deserialize(&exp);" % schema.rust)
    h.add("match r {")
    h.add("    Ok(val) => {")
    for l in schema.check(ctx, "val", m):
        h.add("        " + l)
    h.add('        kani::cover!(true, "round trip completed");')
    h.add("    }")
    h.add('    Err(_) => assert!(false, "the encoding of a value must decode"),')
    h.add("};")
    h.fsa = fsa_for(n + 8)
    h.unwind = max(h.maxlen, n, 32) + 4
    h.bounds = {"encoded_bytes": n, "unwind": h.unwind, "type": schema.rust, "direction": "encode->decode"}
    return h


BIDIR = None


def bidir_types():
    from . import spec
    # (schema, tag, buildable through the public API?, size class, members excluded from round trips)
    # COSE key members are excluded: decoding (C01) and encoding (C02/C03) of the key are each decided separately, but their
    # composition in one harness runs out of memory (cpreq/cpresp/hmacin "full": > 14 GB); HmacSecretInput requires the key
    # and is therefore covered only through C01 + C03.
    return [(spec.CP_REQ, "cpreq", False, "big", ["key_agreement"]), (spec.CM_REQ, "cmreq", False, "big", []),
            (spec.LB_REQ, "lbreq", False, "small", []), (spec.CM_PARAMS, "cmparams", False, "small", []),
            (spec.GI_RESP, "gi", True, "big", []), (spec.CP_RESP, "cpresp", True, "big", ["key_agreement"]), (spec.LB_RESP, "lbresp", True, "small", []),
            (spec.AUTH_OPTIONS, "options", False, "small", []), (spec.MC_EXT, "mcext", True, "small", []),
            (spec.GA_EXT_IN, "gaext", True, "small", ["hmac_secret"]), (spec.GA_EXT_OUT, "gaextout", True, "small", []),
            (spec.RP, "rp", True, "small", []), (spec.USER, "user", True, "small", []), (spec.DESC, "desc", True, "small", []),
            (spec.PARAMS, "params", True, "small", []), (spec.CTAP_OPTIONS, "ctapoptions", True, "small", []),
            (spec.CERTIFICATIONS, "certs", False, "small", [])]


@register("C15", "g15", {
    "functions": ["cbor_deserialize / cbor_serialize of every type that derives both directions: client_pin / credential_management / "
                  "large_blobs requests, SubcommandParameters, GetInfo / ClientPin / LargeBlobs responses, HmacSecretInput, "
                  "AuthenticatorOptions, both extension inputs, ExtensionsOutput, rp / user entity, descriptor, parameters, CtapOptions, "
                  "Certifications; string and numeric enumerations"],
    "bounds": "decode->encode on canonical reference bytes and encode->decode on values built through the public API, for: no optional "
              "member, all optional members, every single optional member (thorough: + adjacent pairs); contents symbolic (integers "
              "small constants in multi-member instances, symbolic classes in single-member ones); rp icon excluded as documented; "
              "enumerations: every variant through into/try_from (shared with C18)",
    "out": "COSE key members (ClientPin keyAgreement, hmac-secret input): decode (C01) and encode (C02/C03) are decided separately, their "
           "composition runs out of memory; the all-members instance of the big types (GetInfo, ClientPin request/response, "
           "CredentialManagement request); subsets beyond none/singletons/pairs/full; contents longer than 16 bytes",
})
def plan_c15(tier, seed):
    from .types import Variation
    from . import spec
    hs, metas = [], []

    def add(h, configs="rich"):
        hs.append(h)
        metas.append(G(h, configs))

    for schema, tag, buildable, size, excluded in bidir_types():
        opts = [f.rust for f in schema.fields if not f.required and not f.private and not f.skip_ser and f.rust not in excluded]
        singles = [("only_" + o, [o]) for o in opts]
        if size == "small":
            sets = [("full", opts)] + (singles if tier == T else pick(singles, tier, seed, 1))
            if tier == T:
                sets = [("none", [])] + sets + [("pair_%s__%s" % (a, b), [a, b]) for a, b in zip(opts, opts[1:])]
        else:
            # big types: the all-members instance is intractable; none + single members (+ pairs in thorough)
            sets = [("none", [])] + (singles if tier == T else pick(singles, tier, seed, 2))
            if tier == T:
                sets += [("pair_%s__%s" % (a, b), [a, b]) for a, b in zip(opts, opts[1:])]
        seen = set()
        for mname, pres in sets:
            if (mname not in ("none", "full") and not pres) or (mname, tuple(pres)) in seen:
                continue
            seen.add((mname, tuple(pres)))
            single = len(pres) == 1
            nested_default = "all" if size == "small" else "none"
            # integers are small constants here: a symbolic integer decoded and re-encoded makes the encoder's write position
            # symbolic (c15_de_en_gi_only_firmware_version: no answer in 30 min); integer round trips are C03's and C12's subject
            var = Variation(present={schema.name: pres}, default_present=nested_default, intclass=0, maxlen=16, seed=seed)
            add(_roundtrip_de_en("c15_de_en_%s_%s" % (tag, mname), "C15", schema, var,
                                 "%s (%s): canonical bytes -> decode -> encode reproduces the bytes" % (tag, ",".join(pres) or "no optional member")),
                configs="all" if mname in ("none", "full") else "rich")
            if buildable:
                var = Variation(present={schema.name: pres}, default_present=nested_default, intclass=0, maxlen=16, seed=seed, text="ascii")
                add(_roundtrip_en_de("c15_en_de_%s_%s" % (tag, mname), "C15", schema, var,
                                     "%s (%s): value -> encode -> decode returns an equal value" % (tag, ",".join(pres) or "no optional member")),
                    configs="all" if mname in ("none", "full") else "rich")
    write_gen("C15", hs, prelude=C15_PRELUDE)
    metas.append(S("c15_enums_roundtrip", "every variant of every string / numeric enumeration: decode(encode(v)) == v", configs="first"))
    return metas


C15_PRELUDE = '''
use ctap_types::ctap2::get_info::{Version, Extension, Transport};
use ctap_types::ctap2::AttestationStatementFormat as Fmt;
use ctap_types::ctap2::client_pin::PinV1Subcommand as Pin;
use ctap_types::ctap2::credential_management::{Subcommand as Sub, CredentialProtectionPolicy as Cpp};

macro_rules! rt {
    ($v:expr, $ty:ty) => {{
        let mut buf = [0u8; 24];
        let out = cbor_serialize(&$v, &mut buf).unwrap();
        let back: $ty = cbor_deserialize(out).unwrap();
        assert!(back == $v, "decode(encode(v)) == v");
    }};
}

#[kani::proof]
#[kani::unwind(24)]
#[kani::stub(core::str::from_utf8, crate::utf8::from_utf8_assume_valid)]
fn c15_enums_roundtrip() {
    rt!(Version::Fido2_0, Version); rt!(Version::Fido2_1, Version); rt!(Version::Fido2_1Pre, Version); rt!(Version::U2fV2, Version);
    rt!(Extension::CredProtect, Extension); rt!(Extension::HmacSecret, Extension); rt!(Extension::LargeBlobKey, Extension);
    rt!(Extension::ThirdPartyPayment, Extension);
    rt!(Transport::Nfc, Transport); rt!(Transport::Usb, Transport);
    rt!(Fmt::None, Fmt); rt!(Fmt::Packed, Fmt);
    rt!(Pin::GetRetries, Pin); rt!(Pin::GetKeyAgreement, Pin); rt!(Pin::SetPin, Pin); rt!(Pin::ChangePin, Pin); rt!(Pin::GetPinToken, Pin);
    rt!(Pin::GetPinUvAuthTokenUsingUvWithPermissions, Pin); rt!(Pin::GetUVRetries, Pin); rt!(Pin::GetPinUvAuthTokenUsingPinWithPermissions, Pin);
    rt!(Sub::GetCredsMetadata, Sub); rt!(Sub::EnumerateRpsBegin, Sub); rt!(Sub::EnumerateRpsGetNextRp, Sub); rt!(Sub::EnumerateCredentialsBegin, Sub);
    rt!(Sub::EnumerateCredentialsGetNextCredential, Sub); rt!(Sub::DeleteCredential, Sub); rt!(Sub::UpdateUserInformation, Sub);
    rt!(Cpp::Optional, Cpp); rt!(Cpp::OptionalWithCredentialIdList, Cpp); rt!(Cpp::Required, Cpp);
    kani::cover!(true, "reached");
}
'''


# ---------------------------------------------------------------------------------- C17
@register("C17", "g17", {
    "functions": ["ctap2::Response::serialize::<N> (resize to capacity, split status byte, cbor_serialize, shrink to written length / to 1)"],
    "bounds": "response kinds ClientPin, MakeCredential, CredentialManagement, GetInfo, LargeBlobs (bodies 0..~60 bytes; with large-blobs a "
              "config of 40 bytes); capacities N in {1, 2, 3, size-2 .. size+2, 64, 128} (const generic); the buffer pre-filled with 0, 1, "
              "N/2 or N FULLY symbolic bytes; member values symbolic: fits => exactly 0x00 + reference body, else exactly [0x7F], whatever "
              "the buffer held",
    "out": "N = 0 (documented precondition: capacity >= 1); capacities 256 / 1024 / 3072 / 7609 and bodies beyond ~120 bytes (measured: "
           "the resize loops and whole-buffer field sensitivity give no answer within 10 min); GetAssertion through Response::serialize (see C02)",
})
def plan_c17(tier, seed):
    from .gen_resp import encode_harness, build_response
    from .hb import Harness
    from .types import Variation
    from . import spec
    hs, metas = [], []

    def add(h, configs="first"):
        hs.append(h)
        metas.append(G(h, configs))

    shapes = [("ClientPin", ["retries"]), ("ClientPin", ["pin_token", "retries", "power_cycle_state"]), ("ClientPin", []),
              ("MakeCredential", ["ep_att"]), ("CredentialManagement", ["rp_id_hash", "total_rps"]), ("GetInfo", ["max_msg_size", "transports"]),
              ("LargeBlobs", [])]
    for kind, pres in (shapes if tier == T else shapes[:5]):
        schema = spec.RESPONSES[kind]

        def var():
            return Variation(present={schema.name: pres}, default_present="all", intclass=0, maxlen=8, text="ascii", seed=seed)
        probe = Harness("probe", "C17", "")
        _, _, _, _, body, _ = build_response(probe, kind, var())
        size = 1 if body == [0xA0] else 1 + len(body)
        caps = sorted({1, 2, 3, size - 2, size - 1, size, size + 1, size + 2, 64} | ({128} if tier == T else set()))
        caps = [c for c in caps if c >= 1]
        if tier == Q:
            caps = [c for c in caps if c in (1, 2, size - 1, size, size + 1, 64)]
        for N in caps:
            fills = [0, 1, N // 2, N] if tier == T else ([0, 1, N] if N in (size + 1, 64) else [0, N])
            for pf in sorted(set(fills)):
                if pf > N:
                    continue
                add(encode_harness("c17_%s_%s_n%d_p%d" % (schema.name, "_".join(pres) or "none", N, pf), "C17", kind, var(),
                                   "%s response (%d bytes encoded) into capacity %d pre-filled with %d symbolic bytes" % (kind, size, N, pf),
                                   N=N, prefill=pf, mode="exact", via="response", timeout=2400))
    write_gen("C17", hs)
    return metas


# ---------------------------------------------------------------------------------- C16
C16_PRELUDE = '''
/// the feature-dependent constant and the capacity it gives LargeBlobs `config`
#[kani::proof]
#[kani::unwind(8)]
fn c16_large_blob_constant() {
    #[cfg(feature = "large-blobs")]
    assert!(ctap_types::sizes::LARGE_BLOB_MAX_FRAGMENT_LENGTH == 3008);
    #[cfg(not(feature = "large-blobs"))]
    assert!(ctap_types::sizes::LARGE_BLOB_MAX_FRAGMENT_LENGTH == 0);
    // config: None and Some(empty) encode identically in every configuration
    let mut r = ctap2::large_blobs::Response::default();
    let mut b1 = [0u8; 8];
    let o1 = cbor_serialize(&r, &mut b1).unwrap();
    assert!(o1.len() == 1 && o1[0] == 0xa0, "no member set: empty map");
    r.config = Some(ctap_types::Bytes::new());
    let mut b2 = [0u8; 8];
    let o2 = cbor_serialize(&r, &mut b2).unwrap();
    assert!(o2.len() == 3 && o2[0] == 0xa1 && o2[1] == 0x01 && o2[2] == 0x40, "empty config encodes as the map 1 => empty byte string");
    kani::cover!(true, "reached");
}
'''


@register("C16", "g16", {
    "functions": ["the cfg(feature)-gated field lists of get_info::Response, get_info::CtapOptions, credential_management::Response, "
                  "make_credential::Extensions, get_assertion::ExtensionsInput/ExtensionsOutput as seen by the serde / serde-indexed derives",
                  "sizes::LARGE_BLOB_MAX_FRAGMENT_LENGTH"],
    "bounds": "the SAME feature-independent instances (requests: every command with no / all feature-independent optional parameters; "
              "responses: GetInfo, CredentialManagement, ClientPin, MakeCredential extensions, CtapOptions with every feature-independent "
              "member) are decided in EACH of the 8 combinations (quick tier: the 5 configurations with no / exactly one / all features) of get-info-full / "
              "large-blobs / third-party-payment against one feature-free oracle encoding (equality to a common oracle in A and in B implies A and B agree); plus, per configuration, "
              "the feature-gated members under their own specification keys; contents symbolic",
    "out": "std / arbitrary (no wire effect: `std` only removes no_std, `arbitrary` only adds impls; checked to build at the all-on corner "
           "by C19's configuration); instances beyond the listed ones",
})
def plan_c16(tier, seed):
    from .gen_req import decode_harness
    from .gen_resp import encode_harness, value_harness
    from .types import Variation
    from . import spec
    hs, metas = [], []

    def add(h, configs="all8"):
        hs.append(h)
        metas.append(G(h, configs))

    # decode side: every command, feature-independent members only
    for cmd, tag in ((0x0C, "lb"), (0x06, "cp"), (0x0A, "cm"), (0x02, "ga"), (0x01, "mc")):
        schema, variant = spec.REQUESTS[cmd]
        opts = [f.rust for f in schema.fields if not f.required and not f.private]
        if tier == Q:
            continue     # quick: the feature-gated members of requests live in the nested extension maps, decoded stand-alone below
        var = Variation(present={schema.name: opts}, default_present="all", intclass=0, seed=seed, maxlen=12)
        add(decode_harness("c16_req_%s_common" % tag, "C16", cmd, var,
                           "%s request using only feature-independent members decodes to the same values in every configuration" % variant,
                           via="direct", timeout=2400))
    # encode side
    for kind, tag in (("GetInfo", "gi"), ("CredentialManagement", "cmresp"), ("ClientPin", "cpresp")):
        schema = spec.RESPONSES[kind]
        opts = [f.rust for f in schema.fields if not f.required and not f.private and f.feature is None]
        # all feature-independent members, three at a time (the all-at-once instance of GetInfo / CredentialManagement
        # exhausts memory): every member appears in one chunk, so a renumbering caused by a gated member is seen
        chunks = [opts[i:i + 3] for i in range(0, len(opts), 3)]
        for ci, ch in enumerate(chunks):
            var = Variation(present={schema.name: ch}, default_present="none", intclass=0, maxlen=4, text="ascii", seed=seed)
            add(encode_harness("c16_resp_%s_common_%d" % (tag, ci), "C16", kind, var,
                               "%s response with the feature-independent members %s encodes to the same bytes in every configuration" % (kind, ",".join(ch)),
                               via="direct", timeout=2400))
    for schema, tag in ((spec.CTAP_OPTIONS, "ctapoptions"), (spec.MC_EXT, "mcext"), (spec.GA_EXT_OUT, "gaextout")):
        opts = [f.rust for f in schema.fields if not f.required and f.feature is None]
        var = Variation(present={schema.name: opts}, default_present="all", intclass=0, maxlen=4, text="ascii", seed=seed)
        add(value_harness("c16_val_%s_common" % tag, "C16", schema, var, "%s with every feature-independent member: same bytes in every configuration" % tag))
    # decode side of the extension maps (the only request types with a feature-gated member)
    from .gen_req import nested_harness
    for schema, tag in ((spec.MC_EXT, "mcext"), (spec.GA_EXT_IN, "gaext"), (spec.CM_PARAMS, "cmparams")):
        opts = [f.rust for f in schema.fields if not f.required and f.feature is None]
        var = Variation(present={schema.name: opts}, default_present="none", intclass=0, seed=seed, maxlen=8)
        add(nested_harness("c16_dec_%s_common" % tag, "C16", schema, var,
                           "%s with every feature-independent member decodes to the same values in every configuration" % tag))
    # feature members under their own keys (only in configurations that have them)
    feat = [("GetInfo", "gi", ["force_pin_change", "long_touch_for_reset", "certifications"]), ("CredentialManagement", "cmresp", ["third_party_payment"])]
    for kind, tag, members in feat:
        schema = spec.RESPONSES[kind]
        for mbr in members:
            var = Variation(present={schema.name: [mbr]}, default_present="all", intclass=0, maxlen=4, text="ascii", seed=seed)
            add(encode_harness("c16_resp_%s_feature_%s" % (tag, mbr), "C16", kind, var,
                               "%s response: feature-gated member %s appears under its specification key, common members unchanged" % (kind, mbr),
                               via="direct"), configs="all8" if tier == T else "all")
    for schema, tag, mbr in ((spec.MC_EXT, "mcext", "third_party_payment"), (spec.GA_EXT_IN, "gaext", "third_party_payment"),
                             (spec.CTAP_OPTIONS, "ctapoptions", "ep"), (spec.CTAP_OPTIONS, "ctapoptions", "set_min_pin_length")):
        var = Variation(present={schema.name: [mbr]}, default_present="none", intclass=0, seed=seed)
        add(value_harness("c16_val_%s_feature_%s" % (tag, mbr), "C16", schema, var, "%s: feature-gated member %s under its own key" % (tag, mbr)),
            configs="all8" if tier == T else "all")
    write_gen("C16", hs, prelude=C16_PRELUDE)
    metas.append(S("c16_large_blob_constant", "LARGE_BLOB_MAX_FRAGMENT_LENGTH per configuration; empty config encodes identically", configs="all8"))
    return metas


# ---------------------------------------------------------------------------------- C19
@register("C19", "c19", {
    "functions": ["src/arbitrary.rs: every hand-written Arbitrary impl (rp/user entity, descriptor ref, filtered params, hmac-secret input, "
                  "sub-command params, attestation formats preference, the five request structs, ctap1 register/authenticate) and helpers "
                  "arbitrary_str / arbitrary_bytes / arbitrary_vec / arbitrary_byte_array / arbitrary_key / arbitrary_option",
                  "derived Arbitrary for ctap1::Request, ctap2::Request, authenticator::Request, Operation, enums"],
    "bounds": "input bytes FULLY symbolic with symbolic length <= N per generator (N = 72 for ctap1::Request, 24 hmac-secret input and "
              "large-blobs request, 14 rp entity, 12 user entity/descriptor/params, 10 client-pin request, 8 formats preference; thorough "
              "tier only: 6 sub-command params / cred-mgmt request, 4 get-assertion / make-credential requests, 2 for the derived "
              "ctap2::Request and authenticator::Request enum wrappers)",
    "out": "inputs longer than N bytes (the statement's 0..=4096); Debug formatting and dispatch of the generated value (fmt machinery is "
           "out of CBMC's reach); PartialEq on the big request enums",
    "assumptions": ["core::str::from_utf8 replaced by the reference validator stub (valid_up_to/error_len equivalence to std proved for "
                    "all strings <= 6 bytes)"],
})
def plan_c19(tier, seed):
    quick = ["rp_entity", "user_entity", "descriptor_ref", "filtered_params", "hmac_secret_input", "att_formats_pref",
             "large_blobs_request", "client_pin_request", "ctap1_request"]
    # the generators below reach several nested generators from a symbolic variant/presence choice; they are decided only in
    # the thorough tier, on very short inputs, and may remain undecided (reported as INCONCLUSIVE, never as held)
    heavy = ["subcommand_params", "cred_mgmt_request", "get_assertion_request", "make_credential_request", "ctap2_request_enum",
             "authenticator_request_enum"]
    out = [S("c19_" + n, "<%s as Arbitrary>::arbitrary on fully symbolic bytes of symbolic length" % n, requires=["arbitrary"],
             configs="first", timeout=2400, sym=12) for n in quick]
    out += [S("c19_" + n, "<%s as Arbitrary>::arbitrary on fully symbolic bytes of symbolic length (very short inputs)" % n,
              requires=["arbitrary"], configs="first", timeout=1800, sym=4, tiers=(T,)) for n in heavy]
    return out
