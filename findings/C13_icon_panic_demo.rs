use ctap_types::webauthn::PublicKeyCredentialUserEntity;
fn user_with_icon(n: usize) -> Vec<u8> {
    let mut v = vec![0xa2, 0x62, b'i', b'd', 0x41, 0x01, 0x64, b'i', b'c', b'o', b'n'];
    if n < 24 { v.push(0x60 + n as u8) } else if n < 256 { v.push(0x78); v.push(n as u8) } else { v.push(0x79); v.push((n >> 8) as u8); v.push(n as u8) }
    v.extend(std::iter::repeat(b'a').take(n));
    v
}
#[test]
fn icon_128() { let r: PublicKeyCredentialUserEntity = ctap_types::serde::cbor_deserialize(&user_with_icon(128)).unwrap(); assert_eq!(r.icon.unwrap().len(), 128); }
#[test]
fn icon_129() { let r: PublicKeyCredentialUserEntity = ctap_types::serde::cbor_deserialize(&user_with_icon(129)).unwrap(); assert!(r.icon.is_none()); }
#[test]
fn icon_300() { let r: PublicKeyCredentialUserEntity = ctap_types::serde::cbor_deserialize(&user_with_icon(300)).unwrap(); assert!(r.icon.is_none()); }
